(* mon_C02 (Corr/CorrPipeline.v), part 3: the request walk without the hypothesis
   "one UID per object".  The alias clause of a delete request (no applied
   object carries the UID of the deleted one) is derived from the model's own
   filter (`PSkipAlias`: the UID is not among the UIDs recorded for successful
   applies when the prune task started).  Needs: an apply set names each object
   once (`locals_nodup`) - with a duplicated manifest id a second, failing apply
   overwrites the record of the first and the filter misses the alias.
   Invariant `Inv2`: coherence of the replayed map with the cluster (as in
   part 1), for apply ids also of the UIDs, and every applied id whose replayed
   UID is non-zero has a successful-apply record with that UID. *)
From Coq Require Import List Bool Arith NArith ZArith Lia.
From CliUtils Require Import Model.ObjSet Model.ActuationTable Model.PipelineTypes Model.Pipeline
     Proofs.ObjSetProofs Proofs.ActuationTableProofs Proofs.PipelineBase Proofs.PipelineAuth Proofs.PipelineEvents
     Proofs.PipelinePolicy Corr.CorrPipeline Proofs.PipelineOrphansBase Proofs.PipelineOrphansSpec
     Proofs.PipelineOrphansInv Proofs.PipelineOrphansPlan Proofs.PipelineOrphansRun Proofs.PipelineMonBase
     Proofs.PipelineMonC13 Proofs.PipelineMonC02a.
Import ListNotations.

(* ---- the walk, with both accumulators -------------------------------------------------------- *)
Section Pure2.
  Variable sc : scenario.
  Variable c0 : cluster.
  Notation o := (sc_opts sc).

  (* the alias clause of a delete request *)
  Definition alias_free (cur : list centry) (ap : list id) (it : item) : Prop :=
    match it with
    | IReq (RDelete i _ _) _ _ _ =>
        forall c, find_obj (objs c0) i = Some c ->
          forall j x, In j ap -> findc cur j = Some x -> snd x = c_uid c -> c_uid c = 0%N
    | _ => True
    end.
  Definition aok2 (cur : list centry) (ap : list id) (it : item) : Prop :=
    aok sc cur it /\ alias_free cur ap it.

  Fixpoint Walk2 (cur : list centry) (ap : list id) (t : list item) : Prop :=
    match t with
    | [] => True
    | it :: rest => aok2 cur ap it /\ Walk2 (replay_item sc cur it) (app_item ap it) rest
    end.

  Lemma Walk2_app a : forall cur ap b,
    Walk2 cur ap (a ++ b) <-> Walk2 cur ap a /\ Walk2 (cur_after sc cur a) (app_after ap a) b.
  Proof.
    induction a as [|it a IH]; intros cur ap b; cbn [app Walk2 cur_after app_after fold_left]; [tauto|].
    rewrite IH. unfold cur_after, app_after. tauto.
  Qed.

  Lemma here_delete2 cur ap i pre p ok m st :
    stat sc c0 (IReq (RDelete i pre p) ok m st) -> alias_free cur ap (IReq (RDelete i pre p) ok m st) ->
    match find_obj (objs c0) i with
    | None => false
    | Some c =>
        memn i (prev_of c0) && negb (memn i (local_ids sc)) && pol_ok (o_policy o) (c_owner c)
        && negb (c_keep c)
        && negb (negb (o_destroy o) && match u_kind (uinfo_of sc i) with KNs => ns_in_use sc (sc_local sc) i | _ => false end)
        && negb (existsb (fun j => match find (fun x => Nat.eqb (fst (fst x)) j) cur with
                                   | Some x => N.eqb (snd x) (c_uid c) && negb (N.eqb (c_uid c) 0)
                                   | None => false end) ap)
        && N.eqb pre (c_uid c) && prop_eqb p (o_prop o)
    end = true.
  Proof.
    intros [c [E [H1 [H2 [H3 [H4 [H5 [-> ->]]]]]]]] AF. cbn [alias_free] in AF. rewrite E.
    rewrite (proj2 (memn_In _ _) H1), H3, H4, H5, N.eqb_refl, prop_eqb_refl.
    assert (M : memn i (local_ids sc) = false).
    { destruct (memn i (local_ids sc)) eqn:X; [|reflexivity]. apply memn_In in X. contradiction. }
    rewrite M. cbn [negb andb]. rewrite !andb_true_r.
    match goal with |- negb (existsb ?f ap) = true => destruct (existsb f ap) eqn:EX; [|reflexivity] end. exfalso.
    apply existsb_exists in EX. destruct EX as [j [Hj X]].
    fold (findc cur j) in X. destruct (findc cur j) as [x|] eqn:EF; [|discriminate].
    apply andb_true_iff in X. destruct X as [X1 X2]. apply N.eqb_eq in X1. apply negb_true_iff in X2. apply N.eqb_neq in X2.
    apply X2. exact (AF c E j x Hj EF X1).
  Qed.

  Lemma walk_ok2 t : forall cur ap, Forall (stat sc c0) t -> Walk2 cur ap t -> c02_walk sc c0 cur ap t = true.
  Proof.
    induction t as [|it rest IH]; intros cur ap FS W; [reflexivity|].
    inversion FS as [|? ? S1 S2]; subst. destruct W as [[W1 W1'] W2].
    destruct it as [r ok m st|d|e|]; cbn [c02_walk]; try (apply IH; assumption).
    cbn [replay_item app_item] in W2. apply andb_true_iff. split.
    - destruct r as [i|l|l| |i d|i s d|i|i pre p]; try reflexivity.
      + cbn [aok] in W1. fold (findc cur i). destruct (findc cur i) as [x|] eqn:E; [apply W1; reflexivity|reflexivity].
      + cbn [aok] in W1. fold (findc cur i). destruct (findc cur i) as [x|] eqn:E; [apply W1; reflexivity|reflexivity].
      + eapply here_delete2; eassumption.
    - apply IH; [exact S2|exact W2].
  Qed.
End Pure2.

(* ---- what each object operation logs and does to the cluster -------------------------------- *)
Definition put_cl (cl : cluster) (n : cobj) (nu : N) : cluster := mkCl (put_obj (objs cl) n) (inv cl) nu.
Definition del_cl (cl : cluster) (i : id) : cluster := mkCl (del_obj (objs cl) i) (inv cl) (next_uid cl).

Section Req.
  Variable sc : scenario.
  Notation dry := (is_dry (o_dry (sc_opts sc))).

  Ltac leaf := cbn [fst snd log_req emit ev rec_add set_tbl set_cl add_aband r_cl r_tbl r_aband r_tr];
               rewrite ?(mc_cl sc), ?(mc_tbl sc), ?(mc_ab sc), ?(mc_tr sc).

  (* one attempt (a server-side PATCH or a client-side apply) on object i: at most one request *)
  Definition attempt_req (i : id) (s s2 : rst) (r : option N) : Prop :=
    r_tbl s2 = r_tbl s /\
    ( r_tr s2 = r_tr s /\ r_cl s2 = r_cl s
      \/ (exists b d m st, r_tr s2 = IReq (RPatch i b d) false m st :: r_tr s /\ r_cl s2 = r_cl s /\ r = None)
      \/ (exists d m st, r_tr s2 = IReq (RCreate i d) false m st :: r_tr s /\ r_cl s2 = r_cl s /\ r = None)
      \/ (exists u, r = Some u /\
          ( (exists m st, r_tr s2 = IReq (RPatch i true true) true m st :: r_tr s) /\ r_cl s2 = r_cl s /\
              (forall c, fo (r_cl s) i = Some c -> u = c_uid c)
            \/ (exists m st, r_tr s2 = IReq (RCreate i false) true m st :: r_tr s) /\
               (exists n nu, r_cl s2 = put_cl (r_cl s) n nu /\ c_id n = i /\ c_owner n = OOurs)
            \/ (exists b m st, r_tr s2 = IReq (RPatch i b false) true m st :: r_tr s) /\
               (exists n nu, r_cl s2 = put_cl (r_cl s) n nu /\ c_id n = i /\ c_owner n = OOurs /\
                             (forall c, fo (r_cl s) i = Some c -> u = c_uid c /\ c_uid n = c_uid c)) )) ).

  Lemma ssa_patch_req s l n :
    attempt_req (l_id l) s (fst (ssa_patch sc s l n)) (ssa_result (snd (ssa_patch sc s l n))).
  Proof.
    unfold attempt_req, ssa_patch. cbv zeta.
    destruct (faulted sc (FStream (l_id l) n)); leaf.
    { split; [reflexivity|]. right; left. repeat eexists. }
    destruct (faulted sc (FApply (l_id l))); leaf.
    { split; [reflexivity|]. right; left. repeat eexists. }
    destruct (find_obj (objs (r_cl s)) (l_id l)) as [c|] eqn:EF;
      destruct (match o_dry (sc_opts sc) with DServer => true | _ => false end); leaf.
    - split; [reflexivity|]. right; right; right. exists (c_uid c). split; [reflexivity|]. left.
      split; [repeat eexists|]. split; [reflexivity|].
      unfold fo. intros c' E. rewrite EF in E. injection E as <-. reflexivity.
    - split; [reflexivity|]. right; right; right. exists (c_uid c). split; [reflexivity|]. right; right.
      split; [repeat eexists|]. eexists _, _. split; [reflexivity|]. split; [reflexivity|]. split; [reflexivity|].
      unfold fo. intros c' E. rewrite EF in E. injection E as <-. split; reflexivity.
    - split; [reflexivity|]. right; right; right. eexists. split; [reflexivity|]. left.
      split; [repeat eexists|]. split; [reflexivity|].
      unfold fo. intros c' E. rewrite EF in E. discriminate.
    - split; [reflexivity|]. right; right; right. eexists. split; [reflexivity|]. right; right.
      split; [repeat eexists|]. eexists _, _. split; [reflexivity|]. split; [reflexivity|]. split; [reflexivity|].
      unfold fo. intros c' E. rewrite EF in E. discriminate.
  Qed.

  Lemma csa_apply_req s l :
    attempt_req (l_id l) s (fst (csa_apply sc s l)) (snd (csa_apply sc s l)).
  Proof.
    unfold attempt_req, csa_apply. cbv zeta.
    pose proof (same4_get_obj sc s (l_id l)) as G. pose proof (get_obj_found sc s (l_id l)) as GF.
    destruct (get_obj sc s (l_id l)) as [s1 g]. cbn [fst snd] in G, GF. destruct G as [G1 [G2 [G3 G4]]].
    destruct (is_dry (o_dry (sc_opts sc))) eqn:ED.
    - (* dry-run: no request *)
      destruct g as [| |c]; leaf; rewrite ?G1, ?G2, ?G4; try (split; [reflexivity|]; left; split; reflexivity).
      destruct (negb (patch_needed c l)); leaf; rewrite ?G1, ?G2, ?G4; (split; [reflexivity|]; left; split; reflexivity).
    - destruct g as [| |c]; leaf.
      * rewrite G1, G2, G4. split; [reflexivity|]. left. split; reflexivity.
      * destruct (faulted sc (FApply (l_id l))); leaf; rewrite ?G1, ?G2, ?G4.
        { split; [reflexivity|]. right; right; left. repeat eexists. }
        split; [reflexivity|]. right; right; right. eexists. split; [reflexivity|]. right; left.
        split; [repeat eexists|]. eexists _, _. split; [reflexivity|]. split; reflexivity.
      * pose proof (GF c eq_refl) as EF. pose proof (find_obj_id _ _ _ EF) as EI.
        destruct (patch_needed c l) eqn:PN; cbn [negb]; leaf.
        2:{ rewrite G1, G2, G4. split; [reflexivity|]. left. split; reflexivity. }
        destruct (faulted sc (FApply (l_id l))); leaf; rewrite ?G1, ?G2, ?G4.
        { split; [reflexivity|]. right; left. repeat eexists. }
        split; [reflexivity|]. right; right; right. exists (c_uid c). split; [reflexivity|]. right; right.
        split; [repeat eexists|]. eexists _, _. split; [reflexivity|].
        split; [rewrite merged_id; exact EI|]. split; [apply merged_owner|].
        unfold fo. intros c' E. rewrite EF in E. injection E as <-. split; [reflexivity|apply merged_uid].
  Qed.

  (* the state after a rejected apply PATCH of object i *)
  Definition rejected_patch (s : rst) (i : id) (d : bool) : rst :=
    log_req (maybe_cancel sc s i) (RPatch i true d) false.

  (* the whole apply: one attempt, or (APIService fallback) a rejected apply PATCH and then one attempt *)
  Lemma kubectl_apply_req s l :
    let i := l_id l in
    let s2 := fst (kubectl_apply sc s l) in
    let r := snd (kubectl_apply sc s l) in
    attempt_req i s s2 r \/ exists d, attempt_req i (rejected_patch s i d) s2 r.
  Proof.
    cbv zeta.
    destruct (kubectl_apply_cases sc l s) as [[_ ->]|[[_ [-> _]]|[_ [E [_ [_ ->]]]]]].
    - left. apply csa_apply_req.
    - left. cbn [fst snd]. apply ssa_patch_req.
    - right. exists (ssa_dflag sc). unfold rejected_patch. rewrite <- (ssa_patch_stream sc l s 0 E).
      destruct (apisvc_fallback_cases sc l (fst (ssa_patch sc s l 0))) as [[_ ->]|[_ ->]].
      + cbn [fst snd]. apply ssa_patch_req.
      + apply csa_apply_req.
  Qed.
End Req.

Section Req2.
  Variable sc : scenario.
  Ltac leaf := cbn [fst snd log_req emit ev rec_add set_tbl set_cl add_aband r_cl r_tbl r_aband r_tr];
               rewrite ?(mc_cl sc), ?(mc_tbl sc), ?(mc_ab sc), ?(mc_tr sc).

  Lemma prune_one_req pl locals g uids s c :
    let i := c_id c in
    let s' := prune_one sc pl locals g uids s (pobj_of_live c) in
    exists a u0 e,
      r_tbl s' = set_status Nat.eqb (r_tbl s) (mkRec i SDelete a RPending u0 0%Z) /\
      ( r_tr s' = IEv e :: r_tr s /\ r_cl s' = r_cl s
        \/ (exists ok m st, r_tr s' = IEv e :: IReq (RUpdate i) ok m st :: r_tr s /\
              (ok = false /\ r_cl s' = r_cl s
               \/ ok = true /\ exists n, r_cl s' = put_cl (r_cl s) n (next_uid (r_cl s)) /\ c_id n = i /\ c_owner n = ONone))
        \/ (exists ok m st, r_tr s' = IEv e :: IReq (RDelete i (c_uid c) (o_prop (sc_opts sc))) ok m st :: r_tr s /\
              ~ In (c_uid c) uids /\
              (ok = false /\ r_cl s' = r_cl s \/ ok = true /\ r_cl s' = del_cl (r_cl s) i
               \/ ok = true /\ r_cl s' = r_cl s /\ u_fin (uinfo_of sc i) = true)) ).
  Proof.
    cbv zeta. unfold prune_one. cbn [p_live pobj_of_live].
    assert (NOREQ : forall s1 e a u0, r_cl s1 = r_cl s -> r_tbl s1 = r_tbl s -> r_tr s1 = r_tr s ->
              let s' := rec_add (ev s1 e) (c_id c) SDelete a u0 0%Z in
              exists a u0 e,
                r_tbl s' = set_status Nat.eqb (r_tbl s) (mkRec (c_id c) SDelete a RPending u0 0%Z) /\
                ( r_tr s' = IEv e :: r_tr s /\ r_cl s' = r_cl s
                  \/ (exists ok m st, r_tr s' = IEv e :: IReq (RUpdate (c_id c)) ok m st :: r_tr s /\
                        (ok = false /\ r_cl s' = r_cl s
                         \/ ok = true /\ exists n, r_cl s' = put_cl (r_cl s) n (next_uid (r_cl s)) /\ c_id n = c_id c /\ c_owner n = ONone))
                  \/ (exists ok m st, r_tr s' = IEv e :: IReq (RDelete (c_id c) (c_uid c) (o_prop (sc_opts sc))) ok m st :: r_tr s /\
                        ~ In (c_uid c) uids /\
                        (ok = false /\ r_cl s' = r_cl s \/ ok = true /\ r_cl s' = del_cl (r_cl s) (c_id c)
                         \/ ok = true /\ r_cl s' = r_cl s /\ u_fin (uinfo_of sc (c_id c)) = true)) )).
    { intros s1 e a u0 E1 E2 E3. cbv zeta. exists a, u0, e. leaf. rewrite E1, E2, E3. split; [reflexivity|]. left. split; reflexivity. }
    destruct (prune_filters sc pl locals (r_tbl s) uids c) eqn:PF.
    - (* delete *)
      pose proof (prune_filters_delete_ok sc pl locals _ _ _ PF) as [_ [_ [_ NAL]]].
      destruct (is_dry (o_dry (sc_opts sc))); [apply (NOREQ s); reflexivity|].
      destruct (faulted sc (FDelete (c_id c))); leaf.
      { eexists _, _, _. split; [reflexivity|]. right; right. exists false. eexists _, _. split; [reflexivity|]. split; [exact NAL|]. left. split; reflexivity. }
      destruct (find_obj (objs (r_cl s)) (c_id c)) as [live|] eqn:EF; leaf.
      + destruct (N.eqb (c_uid live) (c_uid c)); leaf.
        * destruct (u_fin (uinfo_of sc (c_id c))) eqn:EU; leaf.
          -- eexists _, _, _. split; [reflexivity|]. right; right. exists true. eexists _, _. split; [reflexivity|]. split; [exact NAL|]. right; right. repeat split; reflexivity.
          -- eexists _, _, _. split; [reflexivity|]. right; right. exists true. eexists _, _. split; [reflexivity|]. split; [exact NAL|]. right; left. split; reflexivity.
        * eexists _, _, _. split; [reflexivity|]. right; right. exists false. eexists _, _. split; [reflexivity|]. split; [exact NAL|]. left. split; reflexivity.
      + eexists _, _, _. split; [reflexivity|]. right; right. exists false. eexists _, _. split; [reflexivity|]. split; [exact NAL|]. left. split; reflexivity.
    - (* deletion prevented *)
      destruct (is_dry (o_dry (sc_opts sc))); [apply (NOREQ s); reflexivity|].
      assert (UPD : let s' := if faulted sc (FUpdate (c_id c))
              then rec_add (ev (log_req s (RUpdate (c_id c)) false) (EPrune g (c_id c) AFail)) (c_id c) SDelete AFailed 0%N 0%Z
              else match find_obj (objs (r_cl s)) (c_id c) with
                   | None => rec_add (ev (log_req s (RUpdate (c_id c)) false) (EPrune g (c_id c) AFail)) (c_id c) SDelete AFailed 0%N 0%Z
                   | Some _ =>
                       rec_add (ev (add_aband (log_req (set_cl s (mkCl (put_obj (objs (r_cl s))
                                  (mkC (c_id c) (c_uid c) ONone (c_keep c) (c_deps c) (c_baddep c) (c_ver c) (c_last c)))
                                  (inv (r_cl s)) (next_uid (r_cl s)))) (RUpdate (c_id c)) true) (c_id c))
                                (EPrune g (c_id c) ASkip)) (c_id c) SDelete ASkipped 0%N 0%Z
                   end in
              exists a u0 e,
                r_tbl s' = set_status Nat.eqb (r_tbl s) (mkRec (c_id c) SDelete a RPending u0 0%Z) /\
                ( r_tr s' = IEv e :: r_tr s /\ r_cl s' = r_cl s
                  \/ (exists ok m st, r_tr s' = IEv e :: IReq (RUpdate (c_id c)) ok m st :: r_tr s /\
                        (ok = false /\ r_cl s' = r_cl s
                         \/ ok = true /\ exists n, r_cl s' = put_cl (r_cl s) n (next_uid (r_cl s)) /\ c_id n = c_id c /\ c_owner n = ONone))
                  \/ (exists ok m st, r_tr s' = IEv e :: IReq (RDelete (c_id c) (c_uid c) (o_prop (sc_opts sc))) ok m st :: r_tr s /\
                        ~ In (c_uid c) uids /\
                        (ok = false /\ r_cl s' = r_cl s \/ ok = true /\ r_cl s' = del_cl (r_cl s) (c_id c)
                         \/ ok = true /\ r_cl s' = r_cl s /\ u_fin (uinfo_of sc (c_id c)) = true)) )).
      { cbv zeta. destruct (faulted sc (FUpdate (c_id c))); leaf.
        { eexists _, _, _. split; [reflexivity|]. right; left. exists false. eexists _, _. split; [reflexivity|]. left. split; reflexivity. }
        destruct (find_obj (objs (r_cl s)) (c_id c)); leaf.
        - eexists _, _, _. split; [reflexivity|]. right; left. exists true. eexists _, _. split; [reflexivity|]. right. split; [reflexivity|].
          eexists. split; [reflexivity|]. split; reflexivity.
        - eexists _, _, _. split; [reflexivity|]. right; left. exists false. eexists _, _. split; [reflexivity|]. left. split; reflexivity. }
      destruct (c_owner c); [apply (NOREQ (add_aband s (c_id c))); reflexivity|exact UPD|exact UPD].
    - destruct (is_dry (o_dry (sc_opts sc))); [apply (NOREQ s); reflexivity|apply (NOREQ (add_aband s (c_id c))); reflexivity].
    - apply (NOREQ s); reflexivity.
    - apply (NOREQ s); reflexivity.
  Qed.
End Req2.

(* ---- the invariant -------------------------------------------------------------------------------- *)
Definition req_on (rq : req) (i : id) : Prop :=
  match rq with
  | RNsCreate k | RCreate k _ | RPatch k _ _ | RUpdate k | RDelete k _ _ => k = i
  | _ => True
  end.

Lemma replay_other sc cur rq ok (i j : nat) : req_on rq i -> j <> i ->
  findc (replay_req sc cur rq ok) j = findc cur j.
Proof.
  intros H Hj. unfold replay_req. destruct ok; cbn [negb]; [|reflexivity].
  assert (E : Nat.eqb i j = false) by (apply Nat.eqb_neq; congruence).
  destruct rq as [k|l|l| |k d|k s d|k|k pre p]; cbn [req_on] in H; try reflexivity; subst.
  - change (findc ((i, OOurs, 0%N) :: dropc cur i) j = findc cur j). rewrite findc_cons_drop, E. reflexivity.
  - destruct d; [reflexivity|]. change (findc ((i, OOurs, 0%N) :: dropc cur i) j = findc cur j). rewrite findc_cons_drop, E. reflexivity.
  - destruct d; [reflexivity|].
    change (findc ((i, OOurs, match findc cur i with Some x => snd x | None => 0%N end) :: dropc cur i) j = findc cur j).
    rewrite findc_cons_drop, E. reflexivity.
  - change (findc ((i, ONone, match findc cur i with Some x => snd x | None => 0%N end) :: dropc cur i) j = findc cur j).
    rewrite findc_cons_drop, E. reflexivity.
  - change (findc (dropc cur i) j = findc cur j). rewrite findc_drop, E. reflexivity.
Qed.

Lemma app_req_in ap rq ok i j : req_on rq i -> In j (app_req ap rq ok) -> j = i \/ In j ap.
Proof.
  intros H. unfold app_req. destruct rq; cbn [req_on] in H; auto; destruct ok; auto; intros [<-|X]; auto.
Qed.

Section T2.
  Variable sc : scenario.
  Variable c0 : cluster.
  Variable pl : plan.
  Notation aids := (apply_ids pl).
  Notation curS s := (curR sc c0 (r_tr s)).

  Definition appR (tr : list item) : list id := app_after [] (rev tr).
  Notation appS s := (appR (r_tr s)).

  Lemma appR_cons it t : appR (it :: t) = app_item (appR t) it.
  Proof. unfold appR, app_after. cbn [rev]. rewrite fold_left_app. reflexivity. Qed.

  Lemma WalkR2_cons it t :
    Walk2 sc c0 (cur0 c0) [] (rev (it :: t)) <->
    Walk2 sc c0 (cur0 c0) [] (rev t) /\ aok2 sc c0 (curR sc c0 t) (appR t) it.
  Proof. cbn [rev]. rewrite Walk2_app. cbn [Walk2]. unfold curR, appR. tauto. Qed.

  Record Inv2 (td : list id) (s : rst) : Prop := {
    I_w : Walk2 sc c0 (cur0 c0) [] (rev (r_tr s));
    I_c : coh (r_cl s) (curS s);
    I_u : forall i c x, In i aids -> fo (r_cl s) i = Some c -> findc (curS s) i = Some x ->
            snd x = c_uid c \/ snd x = 0%N;
    I_t : forall j x, In j (appS s) -> findc (curS s) j = Some x -> snd x <> 0%N ->
            tv s j = Some (SApply, ASucceeded, snd x);
    I_a : forall j, In j (appS s) -> In j aids /\ ~ In j td;
  }.

  Lemma Qs_app ap it : Qs it -> app_item ap it = ap.
  Proof.
    intros H. destruct it as [r ok m st| | |]; try reflexivity. destruct r; cbn in *; try reflexivity; destruct H.
  Qed.
  Lemma Qs_aok2 cur ap it : Qs it -> aok2 sc c0 cur ap it.
  Proof.
    intros H. split; [apply Qs_aok; exact H|].
    destruct it as [r ok m st| | |]; try exact I. destruct r; cbn in *; try exact I; destruct H.
  Qed.

  Lemma skip_ext l t : Forall Qs l -> Walk2 sc c0 (cur0 c0) [] (rev t) ->
    Walk2 sc c0 (cur0 c0) [] (rev (l ++ t)) /\ curR sc c0 (l ++ t) = curR sc c0 t /\ appR (l ++ t) = appR t.
  Proof.
    intros F W. induction F as [|it l Hit _ IH]; [auto|].
    destruct IH as [IW [IC IA]]. cbn [app]. rewrite WalkR2_cons, curR_cons, appR_cons, IC, IA.
    split; [split; [exact IW|apply Qs_aok2; exact Hit]|]. split; [apply Qs_replay; exact Hit|apply Qs_app; exact Hit].
  Qed.

  Lemma Inv2_tbl td td' s s' (i : id) l :
    ~ In i (appS s) -> objs (r_cl s') = objs (r_cl s) -> r_tr s' = l ++ r_tr s -> Forall Qs l ->
    (forall j, j <> i -> tv s' j = tv s j) -> incl td' td -> Inv2 td s -> Inv2 td' s'.
  Proof.
    intros NI EC ET F HT HI [A1 A2 A3 A4 A5].
    destruct (skip_ext l (r_tr s) F A1) as [X1 [X2 X3]].
    constructor; rewrite ET, ?X2, ?X3.
    - exact X1.
    - eapply coh_objs; eassumption.
    - unfold fo. rewrite EC. exact A3.
    - intros j x Hj Hf Hn. rewrite HT; [apply A4; assumption|]. intros ->. contradiction.
    - intros j Hj. destruct (A5 j Hj) as [P Q]. split; [exact P|]. intros X. apply Q, HI, X.
  Qed.

  Lemma Inv2_skip td s s' l :
    objs (r_cl s') = objs (r_cl s) -> r_tr s' = l ++ r_tr s -> Forall Qs l ->
    (forall j, tv s' j = tv s j) -> Inv2 td s -> Inv2 td s'.
  Proof.
    intros EC ET F HT [A1 A2 A3 A4 A5].
    destruct (skip_ext l (r_tr s) F A1) as [X1 [X2 X3]].
    constructor; rewrite ET, ?X2, ?X3.
    - exact X1.
    - eapply coh_objs; eassumption.
    - unfold fo. rewrite EC. exact A3.
    - intros j x Hj Hf Hn. rewrite HT. apply A4; assumption.
    - exact A5.
  Qed.

  Lemma Inv2_sstep td s s' : step Qs Co s s' -> (forall j, tv s' j = tv s j) -> Inv2 td s -> Inv2 td s'.
  Proof. intros [C [l [E F]]] HT. eapply Inv2_skip; eassumption. Qed.

  Lemma Inv2_ev td s e : Inv2 td s -> Inv2 td (ev s e).
  Proof. apply (Inv2_skip td s (ev s e) [IEv e]); try reflexivity. constructor; [exact I|constructor]. Qed.

  Lemma Inv2_weaken td td' s : incl td' td -> Inv2 td s -> Inv2 td' s.
  Proof.
    intros HI [A1 A2 A3 A4 A5]. constructor; try assumption.
    intros j Hj. destruct (A5 j Hj) as [P Q]. split; [exact P|]. intros X. apply Q, HI, X.
  Qed.

  (* one request on object i, followed by skipped items (and possibly a new record for i) *)
  Lemma Inv2_target td td' s s' (i : id) rq ok m st l2 :
    req_on rq i ->
    r_tr s' = l2 ++ IReq rq ok m st :: r_tr s -> Forall Qs l2 ->
    (forall j, j <> i -> fo (r_cl s') j = fo (r_cl s) j) ->
    (forall j, j <> i -> tv s' j = tv s j) ->
    incl td' td ->
    Inv2 td s ->
    aok2 sc c0 (curS s) (appS s) (IReq rq ok m st) ->
    coh (r_cl s') (replay_req sc (curS s) rq ok) ->
    (In i aids -> forall c x, fo (r_cl s') i = Some c -> findc (replay_req sc (curS s) rq ok) i = Some x ->
                  snd x = c_uid c \/ snd x = 0%N) ->
    (In i (app_req (appS s) rq ok) -> forall x, findc (replay_req sc (curS s) rq ok) i = Some x -> snd x <> 0%N ->
                  tv s' i = Some (SApply, ASucceeded, snd x)) ->
    (In i (app_req (appS s) rq ok) -> In i aids /\ ~ In i td') ->
    Inv2 td' s'.
  Proof.
    intros RO ET F HF HT HI [A1 A2 A3 A4 A5] AK CO UI TI AI.
    assert (W1 : Walk2 sc c0 (cur0 c0) [] (rev (IReq rq ok m st :: r_tr s))) by (apply WalkR2_cons; split; assumption).
    destruct (skip_ext l2 _ F W1) as [X1 [X2 X3]].
    constructor; rewrite ET, ?X2, ?X3, ?curR_cons, ?appR_cons; cbn [replay_item app_item].
    - exact X1.
    - exact CO.
    - intros j c x Hj Hc Hx. destruct (Nat.eq_dec j i) as [->|Hn]; [eapply UI; eassumption|].
      rewrite (HF j Hn) in Hc. rewrite (replay_other sc _ rq ok i j RO Hn) in Hx. eapply A3; eassumption.
    - intros j x Hj Hx Hn. destruct (Nat.eq_dec j i) as [->|Hne]; [apply TI; assumption|].
      destruct (app_req_in _ _ _ i j RO Hj) as [->|Hj']; [congruence|].
      rewrite (replay_other sc _ rq ok i j RO Hne) in Hx. rewrite (HT j Hne). apply A4; assumption.
    - intros j Hj. destruct (Nat.eq_dec j i) as [->|Hne]; [apply AI; exact Hj|].
      destruct (app_req_in _ _ _ i j RO Hj) as [->|Hj']; [congruence|].
      destruct (A5 j Hj') as [P Q]. split; [exact P|]. intros X. apply Q, HI, X.
  Qed.
End T2.

Lemma fo_put_cl cl n nu j : fo (put_cl cl n nu) j = if Nat.eqb (c_id n) j then Some n else fo cl j.
Proof. unfold fo, put_cl. cbn [objs]. apply find_obj_put. Qed.
Lemma fo_del_cl cl i j : fo (del_cl cl i) j = if Nat.eqb i j then None else fo cl j.
Proof. unfold fo, del_cl. cbn [objs]. apply find_obj_del. Qed.

Section T3.
  Variable sc : scenario.
  Variable c0 : cluster.
  Variable pl : plan.
  Notation aids := (apply_ids pl).
  Notation curS s := (curR sc c0 (r_tr s)).
  Notation appS s := (appR (r_tr s)).
  Notation Inv2 := (Inv2 sc c0 pl).
  Hypothesis PL_prune : forall c, In (pobj_of_live c) (pl_prune pl) -> fo c0 (c_id c) = Some c /\ ~ In (c_id c) aids.
  Hypothesis PL_local : plan_local pl.

  Lemma Inv2_same td s s' : r_cl s' = r_cl s -> r_tbl s' = r_tbl s -> r_tr s' = r_tr s -> Inv2 td s -> Inv2 td s'.
  Proof.
    intros C T R. apply (Inv2_skip sc c0 pl td s s' []); [rewrite C; reflexivity|exact R|constructor|].
    intros j. unfold tv. rewrite T. reflexivity.
  Qed.

  (* ---- apply ---- *)
  (* one attempt on object i from a state in which i has not been applied yet, followed by the
     result event and the record *)
  Lemma t_attempt g td (i : id) s1 s2 r :
    In i aids -> ~ In i td -> Inv2 (i :: td) s1 -> ~ In i (appS s1) ->
    (forall x, findc (curS s1) i = Some x -> pol_ok (o_policy (sc_opts sc)) (snd (fst x)) = true) ->
    attempt_req i s1 s2 r ->
    Inv2 td (match r with
             | Some u => rec_add (ev s2 (EApply g i AOk)) i SApply ASucceeded u harness_gen
             | None => rec_add (ev s2 (EApply g i AFail)) i SApply AFailed 0%N 0%Z
             end).
  Proof.
    intros Hin NTD I1 NIA1 AK [KT K].
    assert (INC : incl td (i :: td)) by (intros x Hx; right; exact Hx).
    assert (SK : forall s2 e a u gg, r_cl s2 = r_cl s1 -> r_tbl s2 = r_tbl s1 -> r_tr s2 = r_tr s1 ->
              Inv2 td (rec_add (ev s2 e) i SApply a u gg)).
    { intros s3 e a u gg E1 E2 E3.
      apply (Inv2_tbl sc c0 pl (i :: td) td s1 _ i [IEv e]); try assumption.
      - cbn. rewrite E1. reflexivity.
      - cbn. rewrite E3. reflexivity.
      - constructor; [exact I|constructor].
      - intros j Hj. apply (tv_other s1 _ (mkRec i SApply a RPending u gg)); [cbn; rewrite E2; reflexivity|exact Hj]. }
    (* the record written afterwards *)
    assert (TVO : forall e a u gg j, j <> i -> tv (rec_add (ev s2 e) i SApply a u gg) j = tv s1 j).
    { intros e a u gg j Hj. apply (tv_other s1 _ (mkRec i SApply a RPending u gg)); [cbn; rewrite KT; reflexivity|exact Hj]. }
    assert (TVS : forall e a u gg, tv (rec_add (ev s2 e) i SApply a u gg) i = Some (SApply, a, u)).
    { intros e a u gg. apply (tv_self s1 _ (mkRec i SApply a RPending u gg)). cbn. rewrite KT. reflexivity. }
    pose proof (I_c _ _ _ _ _ I1) as C1. pose proof (I_u _ _ _ _ _ I1) as U1.
    assert (REJ : forall rq m st e, req_on rq i -> aok2 sc c0 (curS s1) (appS s1) (IReq rq false m st) ->
              r_tr s2 = IReq rq false m st :: r_tr s1 -> r_cl s2 = r_cl s1 ->
              (forall ap, app_req ap rq false = ap) ->
              Inv2 td (rec_add (ev s2 e) i SApply AFailed 0%N 0%Z)).
    { intros rq m st e RO AKr ET EC EA.
      apply (Inv2_target sc c0 pl (i :: td) td s1 _ i rq false m st [IEv e] RO); try assumption.
      - cbn. rewrite ET. reflexivity.
      - constructor; [exact I|constructor].
      - intros j _. cbn. rewrite EC. reflexivity.
      - intros j Hj. apply TVO. exact Hj.
      - cbn. rewrite EC. exact C1.
      - intros Ha c x Hc Hx. cbn in Hc, Hx. rewrite EC in Hc. eapply U1; eassumption.
      - rewrite EA. intros X. contradiction.
      - rewrite EA. intros X. contradiction. }
    destruct K as [[ET EC]|[[b [d [m [st [ET [EC ->]]]]]]|[[d [m [st [ET [EC ->]]]]]|[u [-> K]]]]].
    - destruct r; apply SK; assumption.
    - apply (REJ (RPatch i b d) m st); try assumption; try reflexivity. split; [exact AK|exact I].
    - apply (REJ (RCreate i d) m st); try assumption; try reflexivity. split; [exact AK|exact I].
    - destruct K as [[[m [st ET]] [EC HU]]|[[[m [st ET]] [n [nu [EC [En Eo]]]]]|[[b [m [st ET]]] [n [nu [EC [En [Eo HU]]]]]]]].
      + (* accepted dry-run patch *)
        apply (Inv2_target sc c0 pl (i :: td) td s1 _ i (RPatch i true true) true m st [IEv (EApply g i AOk)] eq_refl); try assumption.
        * cbn. rewrite ET. reflexivity.
        * constructor; [exact I|constructor].
        * intros j _. cbn. rewrite EC. reflexivity.
        * intros j Hj. apply TVO. exact Hj.
        * split; [exact AK|exact I].
        * cbn. rewrite EC. exact C1.
        * intros Ha c x Hc Hx. cbn in Hc, Hx. rewrite EC in Hc. eapply U1; eassumption.
        * intros _ x Hx Hn. change (findc (curS s1) i = Some x) in Hx. rewrite TVS.
          pose proof (C1 i) as Ci. unfold id in *. rewrite Hx in Ci. destruct Ci as [c [u' [Ec _]]].
          destruct (U1 i c x Hin Ec Hx) as [E|E]; [|congruence]. rewrite E, (HU c Ec). reflexivity.
        * intros _. split; assumption.
      + (* accepted create *)
        assert (FO : forall j, fo (r_cl (rec_add (ev s2 (EApply g i AOk)) i SApply ASucceeded u harness_gen)) j =
                               if Nat.eqb i j then Some n else fo (r_cl s1) j).
        { intros j. cbn. rewrite EC, fo_put_cl, En. reflexivity. }
        apply (Inv2_target sc c0 pl (i :: td) td s1 _ i (RCreate i false) true m st [IEv (EApply g i AOk)] eq_refl); try assumption.
        * cbn. rewrite ET. reflexivity.
        * constructor; [exact I|constructor].
        * intros j Hj. rewrite FO. destruct (Nat.eqb i j) eqn:E; [apply Nat.eqb_eq in E; congruence|reflexivity].
        * intros j Hj. apply TVO. exact Hj.
        * split; [exact AK|exact I].
        * cbn [rec_add set_tbl ev emit r_cl]. rewrite EC. unfold replay_req. cbn [negb]. apply coh_put'; assumption.
        * intros _ c x _ Hx. unfold replay_req in Hx. cbn [negb] in Hx.
          change (findc ((i, OOurs, 0%N) :: dropc (curS s1) i) i = Some x) in Hx.
          rewrite findc_cons_drop, Nat.eqb_refl in Hx. injection Hx as <-. right. reflexivity.
        * intros _ x Hx Hn. unfold replay_req in Hx. cbn [negb] in Hx.
          change (findc ((i, OOurs, 0%N) :: dropc (curS s1) i) i = Some x) in Hx.
          rewrite findc_cons_drop, Nat.eqb_refl in Hx. injection Hx as <-. cbn in Hn. congruence.
        * intros _. split; assumption.
      + (* accepted patch *)
        assert (FO : forall j, fo (r_cl (rec_add (ev s2 (EApply g i AOk)) i SApply ASucceeded u harness_gen)) j =
                               if Nat.eqb i j then Some n else fo (r_cl s1) j).
        { intros j. cbn. rewrite EC, fo_put_cl, En. reflexivity. }
        set (u0 := match findc (curS s1) i with Some x => snd x | None => 0%N end).
        assert (RP : replay_req sc (curS s1) (RPatch i b false) true = (i, OOurs, u0) :: dropc (curS s1) i) by reflexivity.
        assert (U0 : u0 <> 0%N -> exists c, fo (r_cl s1) i = Some c /\ u0 = c_uid c).
        { unfold u0. intros Hn. destruct (findc (curS s1) i) as [y|] eqn:Ey; [|congruence].
          pose proof (C1 i) as Ci. unfold fo, id in *. rewrite Ey in Ci. destruct Ci as [c [u' [Ec _]]].
          exists c. split; [exact Ec|]. destruct (U1 i c y Hin Ec Ey) as [E|E]; [exact E|congruence]. }
        apply (Inv2_target sc c0 pl (i :: td) td s1 _ i (RPatch i b false) true m st [IEv (EApply g i AOk)] eq_refl); try assumption.
        * cbn. rewrite ET. reflexivity.
        * constructor; [exact I|constructor].
        * intros j Hj. rewrite FO. destruct (Nat.eqb i j) eqn:E; [apply Nat.eqb_eq in E; congruence|reflexivity].
        * intros j Hj. apply TVO. exact Hj.
        * split; [exact AK|exact I].
        * cbn [rec_add set_tbl ev emit r_cl]. rewrite EC, RP. apply coh_put'; assumption.
        * intros _ c x Hc Hx. rewrite FO, Nat.eqb_refl in Hc. injection Hc as <-.
          rewrite RP, findc_cons_drop, Nat.eqb_refl in Hx. injection Hx as <-. cbn [snd].
          destruct (N.eq_dec u0 0) as [Z|Z]; [right; exact Z|left].
          destruct (U0 Z) as [c [Ec E]]. rewrite E. symmetry. apply (HU c Ec).
        * intros _ x Hx Hn. rewrite RP, findc_cons_drop, Nat.eqb_refl in Hx. injection Hx as <-. cbn [snd] in *.
          rewrite TVS. destruct (U0 Hn) as [c [Ec E]]. rewrite E, (proj1 (HU c Ec)). reflexivity.
        * intros _. split; assumption.
  Qed.

  (* a rejected apply PATCH of an object that has not been applied yet changes nothing the invariant reads *)
  Lemma t_rejected_patch td (i : id) s1 d :
    In i aids -> Inv2 (i :: td) s1 -> ~ In i (appS s1) ->
    (forall x, findc (curS s1) i = Some x -> pol_ok (o_policy (sc_opts sc)) (snd (fst x)) = true) ->
    let s1' := rejected_patch sc s1 i d in
    Inv2 (i :: td) s1' /\ ~ In i (appS s1') /\ curS s1' = curS s1.
  Proof.
    intros Hin I1 NIA1 AK. cbv zeta. unfold rejected_patch.
    assert (ET : r_tr (log_req (maybe_cancel sc s1 i) (RPatch i true d) false) =
                 [] ++ IReq (RPatch i true d) false (managed (r_cl (maybe_cancel sc s1 i))) (stored (r_cl (maybe_cancel sc s1 i))) :: r_tr s1).
    { cbn. rewrite (mc_tr sc). reflexivity. }
    assert (EC : r_cl (log_req (maybe_cancel sc s1 i) (RPatch i true d) false) = r_cl s1).
    { cbn. apply (mc_cl sc). }
    assert (ETB : r_tbl (log_req (maybe_cancel sc s1 i) (RPatch i true d) false) = r_tbl s1).
    { cbn. apply (mc_tbl sc). }
    pose proof (I_c _ _ _ _ _ I1) as C1. pose proof (I_u _ _ _ _ _ I1) as U1.
    split; [|split].
    - eapply (Inv2_target sc c0 pl (i :: td) (i :: td) s1 _ i (RPatch i true d) false _ _ [] eq_refl ET); try assumption.
      + constructor.
      + intros j _. rewrite EC. reflexivity.
      + intros j _. unfold tv. rewrite ETB. reflexivity.
      + intros x Hx. exact Hx.
      + split; [exact AK|exact I].
      + rewrite EC. exact C1.
      + intros Ha c x Hc Hx. rewrite EC in Hc. cbn in Hx. eapply U1; eassumption.
      + cbn. intros X. contradiction.
      + cbn. intros X. contradiction.
    - rewrite ET. cbn [app]. rewrite appR_cons. cbn. exact NIA1.
    - rewrite ET. cbn [app]. rewrite curR_cons. reflexivity.
  Qed.

  Lemma t_apply_one g td s p : local_ok pl p -> NoDup (p_id p :: td) ->
    Inv2 (p_id p :: td) s -> Inv2 td (apply_one sc pl g s p).
  Proof.
    intros [Hin HL] ND I0. unfold apply_one. destruct (p_local p) as [l|] eqn:EL.
    2:{ eapply Inv2_weaken; [|exact I0]. intros x Hx. right. exact Hx. }
    pose proof (HL l eq_refl) as EI. set (i := p_id p) in *.
    assert (NIA : ~ In i (appS s)).
    { intros X. destruct (I_a _ _ _ _ _ I0 i X) as [_ Q]. apply Q. left. reflexivity. }
    assert (NTD : ~ In i td) by (inversion ND; assumption).
    assert (INC : incl td (i :: td)) by (intros x Hx; right; exact Hx).
    destruct (negb (kind_known sc (r_known s) i)).
    { (* no REST mapping: only the record of i changes *)
      apply (Inv2_tbl sc c0 pl (i :: td) td s _ i [IEv (EApply g i AFail)]); try assumption.
      - reflexivity.
      - reflexivity.
      - constructor; [exact I|constructor].
      - intros j Hj. apply (tv_other s _ (mkRec i SApply AFailed RPending 0%N 0%Z)); [reflexivity|exact Hj]. }
    pose proof (same4_policy_apply_filter sc s i) as P.
    pose proof (policy_apply_filter_spec sc s i) as PS. cbv zeta in PS.
    destruct (policy_apply_filter sc s i) as [s1 f1]. cbn [fst snd] in P, PS. destruct P as [P1 [P2 [_ P4]]].
    assert (I1 : Inv2 (i :: td) s1) by (eapply Inv2_same; eassumption).
    assert (NIA1 : ~ In i (appS s1)) by (rewrite P4; exact NIA).
    (* no request: only the record of i changes *)
    assert (SK : forall s2 e a u gg, r_cl s2 = r_cl s1 -> r_tbl s2 = r_tbl s1 -> r_tr s2 = r_tr s1 ->
              Inv2 td (rec_add (ev s2 e) i SApply a u gg)).
    { intros s2 e a u gg E1 E2 E3.
      apply (Inv2_tbl sc c0 pl (i :: td) td s1 _ i [IEv e]); try assumption.
      - cbn. rewrite E1. reflexivity.
      - cbn. rewrite E3. reflexivity.
      - constructor; [exact I|constructor].
      - intros j Hj. apply (tv_other s1 _ (mkRec i SApply a RPending u gg)); [cbn; rewrite E2; reflexivity|exact Hj]. }
    destruct f1; [|apply SK; reflexivity|apply SK; reflexivity].
    destruct (dep_filter sc pl (r_tbl s1) SApply (g_deps (pl_graph pl) i)); [|apply SK; reflexivity|apply SK; reflexivity].
    assert (HP : forall c, find_obj (objs (r_cl s1)) i = Some c -> can_apply sc (c_owner c) = true).
    { rewrite P1. intros c Hc. destruct (proj1 PS eq_refl) as [A|[_ A]]; [apply can_apply_adopt_all; exact A|].
      rewrite Hc in A. exact A. }
    (* the source lookups of the mutator: reads and cache writes only *)
    pose proof (same4_mutate sc s1 l) as [M1 [M2 [_ M4]]].
    destruct (mutate sc s1 l) as [sm okm]. cbn [fst] in M1, M2, M4.
    destruct okm; cbn [negb]; [|apply SK; assumption].
    assert (Im : Inv2 (i :: td) sm) by (eapply Inv2_same; eassumption).
    assert (NIAm : ~ In i (appS sm)) by (rewrite M4; exact NIA1).
    rewrite <- M1 in HP.
    pose proof (aok_from_coh sc _ _ i (I_c _ _ _ _ _ Im) HP) as AK.
    pose proof (kubectl_apply_req sc sm l) as K. cbv zeta in K. rewrite EI in K. fold i in K.
    destruct (kubectl_apply sc sm l) as [s2 r]. cbn [fst snd] in K.
    destruct K as [K|[d K]].
    - exact (t_attempt g td i sm s2 r Hin NTD Im NIAm AK K).
    - destruct (t_rejected_patch td i sm d Hin Im NIAm AK) as [I1' [NIA1' EC']].
      refine (t_attempt g td i _ s2 r Hin NTD I1' NIA1' _ K). rewrite EC'. exact AK.
  Qed.

  Lemma t_apply_task g layer : Forall (local_ok pl) layer -> forall td s,
    NoDup (map p_id layer ++ td) -> Inv2 (map p_id layer ++ td) s -> Inv2 td (apply_task sc pl g s layer).
  Proof.
    unfold apply_task. induction 1 as [|p t Hp _ IH]; intros td s ND I0; cbn [fold_left map app] in *; [exact I0|].
    apply IH; [inversion ND; assumption|]. apply t_apply_one; assumption.
  Qed.

  (* ---- prune ---- *)
  (* the UIDs read when the prune task started cover the successful-apply records *)
  Definition UF (s : rst) (uids : list N) : Prop :=
    forall j u, tv s j = Some (SApply, ASucceeded, u) -> u <> 0%N -> In u uids.

  Lemma UF_start s : UF s (applied_uids (r_tbl s)).
  Proof.
    intros j u H Hn. unfold tv, tvl in H. destruct (lookup Nat.eqb (r_tbl s) j) as [r|] eqn:E; [|discriminate].
    cbn in H. unfold tcore in H. injection H as H1 H2 H3.
    apply (lookup_In id Nat.eqb) in E. unfold applied_uids. apply in_map_iff. exists r. split; [exact H3|].
    apply filter_In. split; [exact E|]. rewrite H1, H2, H3. cbn.
    apply negb_true_iff. apply N.eqb_neq. exact Hn.
  Qed.

  Lemma t_prune_one locals g uids td s p : prune_ok pl p -> UF s uids -> Inv2 td s ->
    Inv2 td (prune_one sc pl locals g uids s p) /\ UF (prune_one sc pl locals g uids s p) uids.
  Proof.
    intros [c [-> Hc]] HUF I0. destruct (PL_prune c Hc) as [Hc0 NAi].
    destruct (prune_one_req sc pl locals g uids s c) as [a [u0 [e [ST ALT]]]]. cbv zeta in *.
    set (i := c_id c) in *. set (s' := prune_one sc pl locals g uids s (pobj_of_live c)) in *.
    assert (TVO : forall j, j <> i -> tv s' j = tv s j).
    { intros j Hj. apply (tv_other s s' (mkRec i SDelete a RPending u0 0%Z) j ST Hj). }
    assert (TVS : tv s' i = Some (SDelete, a, u0)) by (exact (tv_self s s' _ ST)).
    split.
    2:{ intros j u H Hn. destruct (Nat.eq_dec j i) as [->|Hj]; [congruence|]. rewrite (TVO j Hj) in H. eapply HUF; eassumption. }
    assert (NIA : ~ In i (appS s)).
    { intros X. destruct (I_a _ _ _ _ _ I0 i X) as [P _]. contradiction. }
    pose proof (I_c _ _ _ _ _ I0) as C1.
    assert (TGT : forall rq ok m st, req_on rq i -> (forall ap, app_req ap rq ok = ap) ->
              r_tr s' = IEv e :: IReq rq ok m st :: r_tr s ->
              (forall j, j <> i -> fo (r_cl s') j = fo (r_cl s) j) ->
              aok2 sc c0 (curS s) (appS s) (IReq rq ok m st) ->
              coh (r_cl s') (replay_req sc (curS s) rq ok) -> Inv2 td s').
    { intros rq ok m st RO EA ET HF AK CO.
      apply (Inv2_target sc c0 pl td td s s' i rq ok m st [IEv e] RO); try assumption.
      - constructor; [exact I|constructor].
      - intros x Hx; exact Hx.
      - intros X. contradiction.
      - rewrite EA. intros X. contradiction.
      - rewrite EA. intros X. contradiction. }
    destruct ALT as [[ET EC]|[[ok [m [st [ET ALT]]]]|[ok [m [st [ET [NAL ALT]]]]]]].
    - apply (Inv2_tbl sc c0 pl td td s s' i [IEv e]); try assumption.
      + rewrite EC. reflexivity.
      + constructor; [exact I|constructor].
      + intros x Hx; exact Hx.
    - (* annotation-removal update *)
      apply (TGT (RUpdate i) ok m st eq_refl); try assumption; try reflexivity.
      + intros j Hj. destruct ALT as [[_ EC]|[_ [n [EC [En _]]]]]; rewrite EC; [reflexivity|].
        rewrite fo_put_cl, En. destruct (Nat.eqb i j) eqn:E; [apply Nat.eqb_eq in E; congruence|reflexivity].
      + split; exact I.
      + destruct ALT as [[-> EC]|[-> [n [EC [En Eo]]]]]; rewrite EC; [exact C1|].
        unfold replay_req. cbn [negb]. apply coh_put'; assumption.
    - (* delete *)
      apply (TGT (RDelete i (c_uid c) (o_prop (sc_opts sc))) ok m st eq_refl); try assumption; try reflexivity.
      + intros j Hj. destruct ALT as [[_ EC]|[[_ EC]|[_ [EC _]]]]; rewrite EC; [reflexivity| |reflexivity].
        rewrite fo_del_cl. destruct (Nat.eqb i j) eqn:E; [apply Nat.eqb_eq in E; congruence|reflexivity].
      + split; [exact I|]. cbn [alias_free]. intros c' Hc' j x Hj Hx Ex.
        unfold fo in Hc0. fold i in Hc0. rewrite Hc0 in Hc'. injection Hc' as <-.
        destruct (N.eq_dec (c_uid c) 0) as [Z|Z]; [exact Z|]. exfalso. apply NAL.
        apply (HUF j (c_uid c)); [|exact Z]. rewrite <- Ex. apply (I_t _ _ _ _ _ I0 j x Hj Hx). congruence.
      + destruct ALT as [[-> EC]|[[-> EC]|[-> [EC _]]]]; rewrite EC; [exact C1| |].
        * unfold replay_req. cbn [negb]. apply coh_del. exact C1.
        * unfold replay_req. cbn [negb]. apply coh_drop. exact C1.
  Qed.

  Lemma t_prune_task locals g layer td s : Forall (prune_ok pl) layer ->
    Inv2 td s -> Inv2 td (prune_task sc pl locals g s layer).
  Proof.
    unfold prune_task. intros F I0. pose proof (UF_start s) as U0. revert U0 I0.
    generalize (applied_uids (r_tbl s)). intros uids. revert s.
    induction F as [|p t Hp _ IH]; intros s U0 I0; cbn [fold_left]; [exact I0|].
    destruct (t_prune_one locals g uids td s p Hp U0 I0) as [I1 U1]. apply IH; assumption.
  Qed.

  (* ---- the inventory-add task: namespace create, then merge ---- *)
  Lemma t_inv_add_task td s : Inv2 td s -> Inv2 td (fst (inv_add_task sc pl s)).
  Proof.
    intros I0. pose proof (I_c _ _ _ _ _ I0) as C1. unfold inv_add_task. cbv zeta.
    match goal with |- Inv2 td (fst (let '(s1, ok1) := ?X in _)) =>
      assert (H : Inv2 td (fst X)); [|destruct X as [s1 ok1]; cbn [fst] in H] end.
    { destruct (sc_inv_ns sc) as [n|]; [|exact I0].
      destruct (find (fun p => Nat.eqb (p_id p) n) (pl_apply pl)) as [p|] eqn:EF; [|exact I0].
      apply find_some in EF. destruct EF as [Hin _].
      destruct (p_local p) as [l|] eqn:EL; [|exact I0].
      pose proof (PL_local p l Hin EL) as EI. set (i := p_id p) in *.
      assert (TGT : forall s' ok, r_tr s' = IReq (RNsCreate i) ok (managed (r_cl s')) (stored (r_cl s')) :: r_tr s ->
                r_tbl s' = r_tbl s ->
                (forall j, j <> i -> fo (r_cl s') j = fo (r_cl s) j) ->
                coh (r_cl s') (replay_req sc (curS s) (RNsCreate i) ok) ->
                (forall c x, fo (r_cl s') i = Some c -> findc (replay_req sc (curS s) (RNsCreate i) ok) i = Some x ->
                             snd x = c_uid c \/ snd x = 0%N) ->
                (forall x, In i (appS s) -> findc (replay_req sc (curS s) (RNsCreate i) ok) i = Some x -> snd x <> 0%N ->
                           tv s i = Some (SApply, ASucceeded, snd x)) ->
                Inv2 td s').
      { intros s' ok ET ETB HF CO UI TI.
        apply (Inv2_target sc c0 pl td td s s' i (RNsCreate i) ok _ _ [] eq_refl ET); try assumption.
        - constructor.
        - intros j _. unfold tv. rewrite ETB. reflexivity.
        - intros x Hx; exact Hx.
        - split; exact I.
        - intros _. exact UI.
        - intros X x Hx Hn. unfold tv. rewrite ETB. apply TI; assumption.
        - intros X. apply (I_a _ _ _ _ _ I0 i X). }
      assert (SAME : forall s', r_tr s' = IReq (RNsCreate i) false (managed (r_cl s')) (stored (r_cl s')) :: r_tr s ->
                r_tbl s' = r_tbl s -> r_cl s' = r_cl s -> Inv2 td s').
      { intros s' ET ETB EC. apply (TGT s' false ET ETB).
        - intros j _. rewrite EC. reflexivity.
        - rewrite EC. exact C1.
        - intros c x Hc Hx. rewrite EC in Hc.
          apply (I_u _ _ _ _ _ I0 i c x); [apply in_map; exact Hin|exact Hc|exact Hx].
        - intros x X Hx Hn. apply (I_t _ _ _ _ _ I0 i x X Hx Hn). }
      destruct (is_dry _); cbn [fst]; [exact I0|].
      destruct (faulted sc FNsCreate); cbn [fst]; [apply SAME; reflexivity|].
      destruct (find_obj (objs (r_cl s)) i) eqn:EO; cbn [fst]; [apply SAME; reflexivity|].
      apply (TGT _ true); try reflexivity.
      - intros j Hj. cbn [log_req emit set_cl r_cl]. unfold fo. cbn [objs]. rewrite find_obj_put. cbn [obj_of_manifest c_id].
        rewrite EI. destruct (Nat.eqb i j) eqn:E; [apply Nat.eqb_eq in E; congruence|reflexivity].
      - cbn [log_req emit set_cl r_cl]. unfold replay_req. cbn [negb]. apply coh_put'; [exact EI|reflexivity|exact C1].
      - intros c x _ Hx. unfold replay_req in Hx. cbn [negb] in Hx.
        change (findc ((i, OOurs, 0%N) :: dropc (curS s) i) i = Some x) in Hx.
        rewrite findc_cons_drop, Nat.eqb_refl in Hx. injection Hx as <-. right. reflexivity.
      - intros x _ Hx Hn. unfold replay_req in Hx. cbn [negb] in Hx.
        change (findc ((i, OOurs, 0%N) :: dropc (curS s) i) i = Some x) in Hx.
        rewrite findc_cons_drop, Nat.eqb_refl in Hx. injection Hx as <-. cbn in Hn. congruence. }
    destruct ok1; cbn [fst]; [|exact H].
    apply (Inv2_sstep sc c0 pl td s1 _ (s_merge sc s1 _)); [|exact H].
    destruct (merge_spec sc s1 (map p_id (pl_apply pl))) as [ETB _]. cbv zeta in ETB.
    intros j. unfold tv. rewrite ETB. reflexivity.
  Qed.

  (* ---- tasks ---- *)
  Lemma todo_cons t rest :
    todo_of (t :: rest) = match t with TApply _ l | TPrune _ l => map p_id l | _ => [] end ++ todo_of rest.
  Proof. reflexivity. Qed.

  Lemma t_run_task locals prev s t rest : task_ok pl t -> NoDup (todo_of (t :: rest)) ->
    Inv2 (todo_of (t :: rest)) s -> Inv2 (todo_of rest) (fst (run_task sc pl locals prev s t)).
  Proof.
    intros OK ND I0. unfold run_task. cbv zeta. rewrite todo_cons in ND, I0.
    pose proof (Inv2_ev sc c0 pl _ s (EStarted (task_name t)) I0) as S0.
    destruct t; cbn [task_ok] in OK; cbn [app] in *.
    - pose proof (t_inv_add_task (todo_of rest) _ S0) as T.
      destruct (inv_add_task sc pl _) as [s1 ok]. cbn [fst] in *. apply Inv2_ev. exact T.
    - cbn [fst]. apply Inv2_ev. apply t_apply_task; assumption.
    - cbn [fst]. apply Inv2_ev.
      apply (Inv2_sstep sc c0 pl _ _ _ (s_wait_task sc c (task_name (TWait k c ids)) ids _)); [|exact S0].
      apply (q_wait_task sc c (task_name (TWait k c ids)) ids _).
    - cbn [fst]. apply Inv2_ev. apply t_prune_task; [exact OK|].
      eapply Inv2_weaken; [|exact S0]. intros x Hx. apply in_or_app. right. exact Hx.
    - pose proof (Inv2_sstep sc c0 pl (todo_of rest) _ _ (s_inv_set_task sc pl prev (ev s (EStarted (task_name TInvSet))))) as T.
      destruct (inv_set_task_spec sc pl prev (ev s (EStarted (task_name TInvSet)))) as [ETB _]. cbv zeta in ETB.
      destruct (inv_set_task sc pl prev _) as [s1 ok]. cbn [fst] in *. apply Inv2_ev. apply T; [|exact S0].
      intros j. unfold tv. rewrite ETB. reflexivity.
  Qed.

  Lemma t_run_tasks locals prev ts : Forall (task_ok pl) ts -> forall s, NoDup (todo_of ts) ->
    Inv2 (todo_of ts) s -> exists td', Inv2 td' (run_tasks sc pl locals prev s ts).
  Proof.
    induction 1 as [|t rest Ot _ IH]; intros s ND I0; cbn [run_tasks]; [eexists; exact I0|].
    pose proof (t_run_task locals prev s t rest Ot ND I0) as T.
    destruct (run_task sc pl locals prev s t) as [s1 ok]. cbn [fst] in T.
    destruct (negb ok); [eexists; apply Inv2_ev; exact T|].
    destruct (r_abort s1); [eexists; apply Inv2_ev; exact T|].
    apply IH; [|exact T]. rewrite todo_cons in ND. apply NoDup_app_elim in ND. apply ND.
  Qed.
End T3.

(* ---- the whole run ------------------------------------------------------------------------------- *)
Lemma findc_cur0 c0 (i : nat) :
  findc (cur0 c0) i = option_map (fun c => (c_id c, c_owner c, c_uid c)) (find_obj (objs c0) i).
Proof.
  unfold cur0, findc. induction (objs c0) as [|c t IH]; [reflexivity|].
  cbn [find_obj map find fst]. destruct (Nat.eqb (c_id c) i); [reflexivity|exact IH].
Qed.

Section RunW2.
  Variable sc : scenario.
  Variable c0 : cluster.
  Hypothesis HND : locals_nodup sc.
  Notation pl := (plan_of sc c0).

  Lemma plan_of_prune c : In (pobj_of_live c) (pl_prune pl) ->
    fo c0 (c_id c) = Some c /\ ~ In (c_id c) (pl_invalid pl) /\ ~ In (c_id c) (apply_ids pl).
  Proof.
    intros H. rewrite plan_of_eq in H. destruct (bp_prune_valid sc _ _ _ _ H) as [Hc Hv]. rewrite <- plan_of_eq in Hv.
    apply found_in_In in Hc. destruct Hc as [Hcand Hf]. split; [exact Hf|]. split; [exact Hv|].
    intros Ha. unfold apply_ids in Ha. apply in_map_iff in Ha. destruct Ha as [p [E Hp]].
    rewrite plan_of_eq in Hp. destruct (bp_apply_is_local sc _ _ _ p Hp) as [l [-> Hl]]. cbn in E.
    unfold cand_of in Hcand. apply (proj1 (sortn_In _ _)) in Hcand. apply (proj1 (diffn_In _ _ _)) in Hcand.
    apply (proj2 Hcand). rewrite <- E. apply in_map. exact Hl.
  Qed.

  Lemma plan_of_prune2 c : In (pobj_of_live c) (pl_prune pl) -> fo c0 (c_id c) = Some c /\ ~ In (c_id c) (apply_ids pl).
  Proof. intros H. destruct (plan_of_prune c H) as [A [_ B]]. auto. Qed.

  Lemma plan_of_todo : NoDup (todo_of (tasks_of sc pl)).
  Proof.
    rewrite plan_of_eq.
    apply (tasks_todo sc _ _ _ (locals_of_NoDup sc HND) (pobjs_NoDup sc c0) (pobjs_disj sc c0)).
  Qed.

  Lemma Inv2_start td s : r_cl s = c0 -> r_tr s = [] -> Inv2 sc c0 pl td s.
  Proof.
    intros C T. constructor; rewrite ?C, ?T.
    - exact I.
    - apply coh_cur0.
    - intros i c x _ Hc Hx. change (findc (cur0 c0) i = Some x) in Hx. rewrite findc_cur0 in Hx.
      unfold fo in Hc. unfold id in *. rewrite Hc in Hx. injection Hx as <-. left. reflexivity.
    - intros j x [].
    - intros j [].
  Qed.

  Lemma Inv2_pre_tasks td s : Inv2 sc c0 pl td s -> Inv2 sc c0 pl td (pre_tasks sc c0 s).
  Proof.
    intros I0. unfold pre_tasks. apply Inv2_ev.
    generalize (pl_valerrs pl). intros errs. revert s I0.
    induction errs as [|e t IH]; intros s I0; cbn [fold_left]; [exact I0|].
    apply IH. apply Inv2_ev. exact I0.
  Qed.

  Theorem run_state_Inv2 : exists td, Inv2 sc c0 pl td (run_state sc c0).
  Proof.
    destruct (run_state_shape sc c0) as [s C T|s C T _ _|s4 SO _ _|s4 prev SO _ _ _].
    - exists []. apply Inv2_ev, Inv2_start; assumption.
    - exists []. apply Inv2_ev, Inv2_start; assumption.
    - exists []. apply Inv2_ev, Inv2_pre_tasks, Inv2_start; apply SO.
    - apply (t_run_tasks sc c0 pl plan_of_prune2 (plan_of_local sc c0)).
      + apply plan_of_tasks_ok.
      + exact plan_of_todo.
      + apply Inv2_pre_tasks, Inv2_start; apply SO.
  Qed.

  Theorem monitor_C02_walk_strong :
    c02_walk sc c0 (map (fun c => (c_id c, c_owner c, c_uid c)) (objs c0)) [] (out_trace (run sc c0)) = true.
  Proof.
    apply walk_ok2; [apply run_stat|].
    rewrite out_trace_run. apply Walk2_app. destruct run_state_Inv2 as [td I2].
    split; [exact (I_w _ _ _ _ _ I2)|]. cbn. repeat split.
  Qed.
End RunW2.

Print Assumptions monitor_C02_walk_strong.
