(* ordering.less (id_ltb) is a strict total order: it is the lexicographic
   order on (kind index, group, kind, namespace, name). *)
From Coq Require Import List Bool Arith String Ascii NArith Lia.
From CliUtils Require Import Model.ObjId.
Import ListNotations.

(* ---- comparisons that are strict total orders --------------------------- *)
Record cmp_ok {A} (c : A -> A -> comparison) : Prop := {
  c_eq : forall x y, c x y = Eq <-> x = y;
  c_anti : forall x y, c y x = CompOpp (c x y);
  c_trans : forall x y z, c x y = Lt -> c y z = Lt -> c x z = Lt
}.

Definition lexc (c1 c2 : comparison) : comparison :=
  match c1 with Eq => c2 | _ => c1 end.

Definition pair_cmp {A B} (ca : A -> A -> comparison) (cb : B -> B -> comparison)
           (p q : A * B) : comparison :=
  lexc (ca (fst p) (fst q)) (cb (snd p) (snd q)).

Lemma pair_cmp_ok : forall A B (ca : A -> A -> comparison) (cb : B -> B -> comparison),
  cmp_ok ca -> cmp_ok cb -> cmp_ok (pair_cmp ca cb).
Proof.
  intros A B ca cb [ea aa ta] [eb ab tb]. split.
  - intros [x1 x2] [y1 y2]. unfold pair_cmp, lexc. simpl. split.
    + destruct (ca x1 y1) eqn:E1; try discriminate. intros E2.
      apply ea in E1. apply eb in E2. subst. reflexivity.
    + intros H. inversion H. subst.
      assert (E1 : ca y1 y1 = Eq) by (apply ea; reflexivity). rewrite E1.
      apply eb. reflexivity.
  - intros [x1 x2] [y1 y2]. unfold pair_cmp, lexc. simpl.
    rewrite (aa x1 y1). destruct (ca x1 y1); simpl; auto.
  - intros [x1 x2] [y1 y2] [z1 z2]. unfold pair_cmp, lexc. simpl.
    destruct (ca x1 y1) eqn:E1; destruct (ca y1 z1) eqn:E2; try discriminate; intros H1 H2.
    + apply ea in E1. apply ea in E2. subst.
      assert (E : ca z1 z1 = Eq) by (apply ea; reflexivity). rewrite E. eauto.
    + apply ea in E1. subst. rewrite E2. reflexivity.
    + apply ea in E2. subst. rewrite E1. reflexivity.
    + rewrite (ta _ _ _ E1 E2). reflexivity.
Qed.

Lemma nat_cmp_ok : cmp_ok Nat.compare.
Proof.
  split.
  - intros x y. apply Nat.compare_eq_iff.
  - intros x y. apply Nat.compare_antisym.
  - intros x y z H1 H2. apply Nat.compare_lt_iff in H1. apply Nat.compare_lt_iff in H2.
    apply Nat.compare_lt_iff. lia.
Qed.

Lemma ascii_compare_refl : forall a, Ascii.compare a a = Eq.
Proof. intros a. unfold Ascii.compare. apply N.compare_refl. Qed.

Lemma ascii_compare_eq : forall a b, Ascii.compare a b = Eq -> a = b.
Proof. exact Ascii.compare_eq_iff. Qed.

Lemma ascii_compare_trans : forall a b c,
  Ascii.compare a b = Lt -> Ascii.compare b c = Lt -> Ascii.compare a c = Lt.
Proof.
  unfold Ascii.compare. intros a b c H1 H2.
  apply N.compare_lt_iff in H1. apply N.compare_lt_iff in H2. apply N.compare_lt_iff.
  eapply N.lt_trans; eassumption.
Qed.

Lemma string_compare_refl : forall s, String.compare s s = Eq.
Proof.
  induction s as [|a s IH]; simpl; auto. rewrite ascii_compare_refl. exact IH.
Qed.

Lemma string_compare_trans : forall a b c,
  String.compare a b = Lt -> String.compare b c = Lt -> String.compare a c = Lt.
Proof.
  induction a as [|x a IH]; intros b c H1 H2.
  - destruct b as [|y b]; simpl in H1; try discriminate.
    destruct c as [|z c]; simpl in H2; try discriminate. reflexivity.
  - destruct b as [|y b]; simpl in H1; try discriminate.
    destruct c as [|z c]; simpl in H2; try discriminate.
    simpl.
    destruct (Ascii.compare x y) eqn:E1; try discriminate;
      destruct (Ascii.compare y z) eqn:E2; try discriminate.
    + apply ascii_compare_eq in E1. apply ascii_compare_eq in E2. subst.
      rewrite ascii_compare_refl. eauto.
    + apply ascii_compare_eq in E1. subst. rewrite E2. reflexivity.
    + apply ascii_compare_eq in E2. subst. rewrite E1. reflexivity.
    + rewrite (ascii_compare_trans _ _ _ E1 E2). reflexivity.
Qed.

Lemma string_cmp_ok : cmp_ok String.compare.
Proof.
  split.
  - intros x y. split; [apply String.compare_eq_iff | intros; subst; apply string_compare_refl].
  - intros x y. apply String.compare_antisym.
  - exact string_compare_trans.
Qed.

(* ---- the key of an id and the lexicographic comparison ------------------ *)
Definition id_key (a : id) : nat * (string * (string * (string * string))) :=
  (gk_index (grp a) (knd a), (grp a, (knd a, (ns a, nm a)))).

Definition key_cmp :=
  pair_cmp Nat.compare (pair_cmp String.compare (pair_cmp String.compare
                       (pair_cmp String.compare String.compare))).

Definition id_cmp (a b : id) : comparison := key_cmp (id_key a) (id_key b).

Lemma key_cmp_ok : cmp_ok key_cmp.
Proof.
  unfold key_cmp.
  repeat (apply pair_cmp_ok; [first [exact nat_cmp_ok | exact string_cmp_ok]|]).
  exact string_cmp_ok.
Qed.

Lemma id_key_inj : forall a b, id_key a = id_key b -> a = b.
Proof.
  intros [g k n m] [g' k' n' m']. unfold id_key. simpl. intros H. inversion H. reflexivity.
Qed.

Lemma id_cmp_ok : cmp_ok id_cmp.
Proof.
  destruct key_cmp_ok as [e a t]. split.
  - intros x y. unfold id_cmp. rewrite e. split; [apply id_key_inj | intros; subst; reflexivity].
  - intros x y. apply a.
  - intros x y z. apply t.
Qed.

Lemma str_ltb_compare : forall a b, str_ltb a b = true <-> String.compare a b = Lt.
Proof.
  intros a b. unfold str_ltb, String.ltb. destruct (String.compare a b); split; intros H; try discriminate; reflexivity.
Qed.

Lemma string_eqb_compare : forall a b, String.eqb a b = true <-> String.compare a b = Eq.
Proof.
  intros a b. rewrite String.eqb_eq. split; [intros; subst; apply string_compare_refl | apply String.compare_eq_iff].
Qed.

(* ordering.less is exactly the lexicographic order on the key *)
Lemma id_ltb_lex : forall a b, id_ltb a b = true <-> id_cmp a b = Lt.
Proof.
  intros [g k n m] [g' k' n' m'].
  unfold id_ltb, id_cmp, key_cmp, id_key, pair_cmp, lexc, gk_equals, gk_is_less_than. simpl.
  destruct (String.eqb g g') eqn:Eg.
  - apply String.eqb_eq in Eg. subst g'. rewrite (string_compare_refl g).
    destruct (String.eqb k k') eqn:Ek.
    + apply String.eqb_eq in Ek. subst k'. rewrite (string_compare_refl k). simpl.
      rewrite Nat.compare_refl.
      destruct (String.eqb n n') eqn:En.
      * apply String.eqb_eq in En. subst n'. rewrite (string_compare_refl n). simpl.
        apply str_ltb_compare.
      * simpl. rewrite str_ltb_compare.
        destruct (String.compare n n') eqn:C; try tauto.
        apply String.compare_eq_iff in C. subst. rewrite String.eqb_refl in En. discriminate.
    + simpl.
      assert (Ck : String.compare k k' <> Eq).
      { intros C. apply String.compare_eq_iff in C. subst. rewrite String.eqb_refl in Ek. discriminate. }
      destruct (Nat.eqb (gk_index g k) (gk_index g k')) eqn:Ei.
      * apply Nat.eqb_eq in Ei. rewrite Ei, Nat.compare_refl. simpl.
        rewrite str_ltb_compare. destruct (String.compare k k'); tauto.
      * simpl. apply Nat.eqb_neq in Ei.
        destruct (Nat.compare (gk_index g k) (gk_index g k')) eqn:C.
        -- apply Nat.compare_eq_iff in C. contradiction.
        -- apply Nat.compare_lt_iff in C. split; auto. intros _. apply Nat.ltb_lt. exact C.
        -- apply Nat.compare_gt_iff in C. split; [|discriminate].
           intros H. apply Nat.ltb_lt in H. lia.
  - simpl.
    assert (Cg : String.compare g g' <> Eq).
    { intros C. apply String.compare_eq_iff in C. subst. rewrite String.eqb_refl in Eg. discriminate. }
    destruct (Nat.eqb (gk_index g k) (gk_index g' k')) eqn:Ei.
    + apply Nat.eqb_eq in Ei. rewrite Ei, Nat.compare_refl. simpl.
      rewrite str_ltb_compare. destruct (String.compare g g'); tauto.
    + simpl. apply Nat.eqb_neq in Ei.
      destruct (Nat.compare (gk_index g k) (gk_index g' k')) eqn:C.
      * apply Nat.compare_eq_iff in C. contradiction.
      * apply Nat.compare_lt_iff in C. split; auto. intros _. apply Nat.ltb_lt. exact C.
      * apply Nat.compare_gt_iff in C. split; [|discriminate].
        intros H. apply Nat.ltb_lt in H. lia.
Qed.

(* ---- strict total order ------------------------------------------------- *)
Lemma id_eqb_spec : forall a b, id_eqb a b = true <-> a = b.
Proof.
  intros [g k n m] [g' k' n' m']. unfold id_eqb. simpl.
  rewrite !andb_true_iff, !String.eqb_eq. split.
  - intros [[[H1 H2] H3] H4]. subst. reflexivity.
  - intros H. inversion H. auto.
Qed.

Lemma id_ltb_irrefl : forall a, id_ltb a a = false.
Proof.
  intros a. destruct (id_ltb a a) eqn:E; auto.
  apply id_ltb_lex in E. destruct id_cmp_ok as [e _ _].
  assert (H : id_cmp a a = Eq) by (apply e; reflexivity). congruence.
Qed.

Lemma id_ltb_trans : forall a b c, id_ltb a b = true -> id_ltb b c = true -> id_ltb a c = true.
Proof.
  intros a b c H1 H2. apply id_ltb_lex in H1. apply id_ltb_lex in H2. apply id_ltb_lex.
  destruct id_cmp_ok as [_ _ t]. eauto.
Qed.

Lemma id_ltb_total : forall a b, a <> b -> id_ltb a b = true \/ id_ltb b a = true.
Proof.
  intros a b N. destruct id_cmp_ok as [e an _].
  destruct (id_cmp a b) eqn:C.
  - apply e in C. contradiction.
  - left. apply id_ltb_lex. exact C.
  - right. apply id_ltb_lex. rewrite an, C. reflexivity.
Qed.

Lemma id_ltb_asym : forall a b, id_ltb a b = true -> id_ltb b a = false.
Proof.
  intros a b H. destruct (id_ltb b a) eqn:E; auto.
  pose proof (id_ltb_trans _ _ _ H E) as T. rewrite id_ltb_irrefl in T. discriminate.
Qed.
