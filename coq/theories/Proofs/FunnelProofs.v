(* C16 (a) — invariants of the event-funnel model and the lemmas behind the
   property theorems: no send on the closed output, close condition, AddInput
   after shutdown, conservation of events, bounded shutdown. *)
From Coq Require Import List Bool Arith ZArith Lia.
From CliUtils Require Import Model.Funnel.
Import ListNotations.

Lemma sumf_app : forall A (f : A -> nat) a b, sumf f (a ++ b) = sumf f a + sumf f b.
Proof. intros A f a b. induction a as [|h t IH]; simpl; [reflexivity | rewrite IH; lia]. Qed.

Lemma sumf_set_nth : forall A (f : A -> nat) l n a x,
  nth_error l n = Some a -> sumf f (set_nth n x l) + f a = sumf f l + f x.
Proof.
  intros A f l. induction l as [|h t IH]; intros n a x H.
  - destruct n; discriminate.
  - destruct n as [|n]; simpl in *.
    + inversion H; subst. lia.
    + specialize (IH n a x H). lia.
Qed.

Lemma count_app : forall x a b, count x (a ++ b) = count x a + count x b.
Proof. intros x a b. induction a as [|h t IH]; simpl; [reflexivity | rewrite IH; lia]. Qed.

Lemma length_set_nth : forall A (l : list A) n x, length (set_nth n x l) = length l.
Proof. intros A l. induction l as [|h t IH]; intros n x; destruct n; simpl; auto. Qed.

Lemma In_set_nth : forall A (l : list A) n x y, In y (set_nth n x l) -> y = x \/ In y l.
Proof.
  intros A l. induction l as [|h t IH]; intros n x y H; destruct n; simpl in *; auto.
  - destruct H as [H|H]; auto.
  - destruct H as [H|H]; auto. apply IH in H. tauto.
Qed.

Lemma nth_error_set_nth_eq : forall A (l : list A) n x a,
  nth_error l n = Some a -> nth_error (set_nth n x l) n = Some x.
Proof.
  intros A l. induction l as [|h t IH]; intros n x a H; destruct n; simpl in *; try discriminate; eauto.
Qed.

Lemma nth_error_set_nth_neq : forall A (l : list A) n m x,
  n <> m -> nth_error (set_nth n x l) m = nth_error l m.
Proof.
  intros A l. induction l as [|h t IH]; intros n m x H; destruct n, m; simpl; auto; try congruence.
Qed.

Lemma sumf_zero_all : forall A (f : A -> nat) l, sumf f l = 0 -> forall a, In a l -> f a = 0.
Proof.
  intros A f l. induction l as [|h t IH]; intros H a Ha; simpl in *; [tauto|].
  destruct Ha as [Ha|Ha]; [subst; lia | apply IH; [lia | exact Ha]].
Qed.

Lemma live_zero_all_done : forall drs, live drs = 0 -> forall d, In d drs -> d_pc d = DDone.
Proof.
  intros drs H d Hd. pose proof (sumf_zero_all _ _ _ H d Hd) as E. simpl in E.
  destruct (d_pc d); simpl in E; try discriminate; reflexivity.
Qed.

Record Inv (s : state) : Prop := mkInv {
  inv_count : m_inputs s = Z.of_nat (live (drains s));
  inv_exit : m_pc s <> MLoop -> ctx_done s = true /\ m_seen s = true /\ m_inputs s = 0%Z;
  inv_seen : m_seen s = true -> ctx_done s = true;
  inv_loop : m_pc s = MLoop -> m_seen s = true -> (0 < m_inputs s)%Z;
  inv_panic : panicked s = false;
  inv_acc : forall x, count x (accepted s) = held_count x (drains s) + count x (delivered s);
  inv_off : forall x, count x (offered s) = queued_count x (inputs s) + count x (accepted s);
  inv_adds : forall k, In (k, AddClosedErr) (adds s) -> ctx_done s = true
}.

Lemma Inv_init : Inv init.
Proof. constructor; simpl; intros; try reflexivity; try congruence; try lia; try tauto. Qed.

Ltac inv_step H :=
  unfold step in H;
  repeat match type of H with
  | context [match ?x with _ => _ end] => destruct x eqn:?; try discriminate
  | context [if ?x then _ else _] => destruct x eqn:?; try discriminate
  end; inversion H; subst; clear H.

Ltac chk := unfold main_check in *;
  repeat match goal with
  | |- context [(?n <=? 0)%Z] => let E := fresh "E" in destruct (Z.leb_spec n 0) as [E|E]
  | H : context [(?n <=? 0)%Z] |- _ => let E := fresh "E" in destruct (Z.leb_spec n 0) as [E|E]
  end.

Ltac sums :=
  unfold live, held_count, queued_count, queued_total in *;
  repeat rewrite sumf_app; repeat rewrite count_app; simpl sumf; simpl count;
  repeat match goal with
  | H : nth_error ?l ?n = Some ?a |- context [sumf ?f (set_nth ?n ?x ?l)] =>
      let F := fresh "F" in pose proof (sumf_set_nth _ f l n a x H) as F; simpl in F; repeat rewrite count_app in F; simpl count in F;
      generalize dependent (sumf f (set_nth n x l)); intros
  end.


Lemma sumf_ge : forall A (f : A -> nat) l n a, nth_error l n = Some a -> f a <= sumf f l.
Proof.
  intros A f l. induction l as [|h t IH]; intros n a H; destruct n; simpl in *; try discriminate.
  - inversion H; subst. lia.
  - specialize (IH n a H). lia.
Qed.

Ltac live_facts :=
  repeat match goal with
  | H : nth_error ?l ?n = Some (mkDrain ?k ?p) |- _ =>
      lazymatch goal with
      | G : (if is_done p then 0 else 1) <= live l |- _ => fail
      | _ => pose proof (sumf_ge _ (fun d => if is_done (d_pc d) then 0 else 1) l n _ H
               : (if is_done p then 0 else 1) <= live l)
      end
  end; simpl is_done in *.

Ltac use_inv :=
  repeat match goal with
  | H : ?a = ?a -> _ |- _ => specialize (H eq_refl)
  | H : ?a <> ?b -> _ |- _ =>
      let N := fresh in assert (N : a <> b) by discriminate; specialize (H N); clear N
  end.

Lemma step_inv : forall s a s', Inv s -> step s a = Some s' -> Inv s'.
Proof.
  intros s a s' I H. destruct I as [I1 I2 I3 I4 I5 I6 I7 I8]. destruct s. simpl in *.
  inv_step H; constructor; simpl in *; intros.
  all: try match goal with x : ev |- _ => specialize (I6 x); specialize (I7 x) end.
  all: try match goal with
       | H : In _ (_ ++ _) |- _ =>
           apply in_app_or in H; destruct H as [H|H];
           [ | simpl in H; destruct H as [H|[]]; try congruence ]
       end.
  all: try solve [ auto | tauto | congruence | lia | eapply I8; eauto ].
  all: try solve [ sums; lia ].
  all: live_facts.
  all: try solve [ destruct m_seen; chk; use_inv; simpl in *; sums; try congruence; try tauto; try lia;
                   repeat split; try tauto; try lia ].
  all: try solve [ destruct ctx_done; destruct m_seen; simpl in *; try discriminate; chk; use_inv;
                   repeat split; try tauto; try lia ].
Qed.

Lemma run_inv : forall sched s, Inv s -> Inv (run s sched).
Proof.
  induction sched as [|a t IH]; intros s I; simpl; [exact I|].
  apply IH. unfold step_skip. destruct (step s a) eqn:E; [eapply step_inv; eauto | exact I].
Qed.

Lemma reachable_inv : forall s, reachable s -> Inv s.
Proof. intros s [sched ->]. apply run_inv. exact Inv_init. Qed.

Lemma closed_all_done : forall s, Inv s -> m_pc s <> MLoop -> forall d, In d (drains s) -> d_pc d = DDone.
Proof.
  intros s I H d Hd. destruct I as [I1 I2 _ _ _ _ _ _].
  destruct (I2 H) as (_ & _ & Hz). rewrite I1 in Hz.
  apply live_zero_all_done with (drs := drains s); [lia | exact Hd].
Qed.

Lemma out_closed_not_loop : forall s, out_closed s = true -> m_pc s <> MLoop.
Proof. intros s H. unfold out_closed in H. destruct (m_pc s); congruence. Qed.

(* ---------------- theorems of C16 (a) ---------------- *)
Lemma no_send_on_closed : forall s, reachable s -> out_closed s = true ->
  forall d, In d (drains s) -> d_pc d = DDone.
Proof.
  intros s R H. apply closed_all_done; [apply reachable_inv; exact R | apply out_closed_not_loop; exact H].
Qed.

Lemma never_panics : forall s, reachable s -> panicked s = false.
Proof. intros s R. exact (inv_panic s (reachable_inv s R)). Qed.

Lemma close_condition : forall s, reachable s -> out_closed s = true ->
  ctx_done s = true /\ live (drains s) = 0 /\ m_inputs s = 0%Z.
Proof.
  intros s R H. pose proof (reachable_inv s R) as I.
  destruct (inv_exit s I (out_closed_not_loop s H)) as (A & _ & C).
  split; [exact A|]. split; [|exact C]. rewrite (inv_count s I) in C. lia.
Qed.

Lemma done_after_out : forall s, done_closed s = true -> out_closed s = true.
Proof. intros s. unfold done_closed, out_closed. destruct (m_pc s); congruence. Qed.

Lemma add_after_close : forall s, reachable s -> m_pc s <> MLoop -> forall k,
  step s (AAdd k) = None /\
  exists s', step s (AAddErr k) = Some s' /\ drains s' = drains s /\ inputs s' = inputs s /\
             m_inputs s' = m_inputs s /\ m_pc s' = m_pc s /\ adds s' = adds s ++ [(k, AddClosedErr)].
Proof.
  intros s R H k. pose proof (reachable_inv s R) as I.
  destruct (inv_exit s I H) as (A & _ & _).
  destruct s; simpl in *. split.
  - destruct m_pc; congruence.
  - subst ctx_done. eexists. split; [reflexivity|]. simpl. repeat split.
Qed.

Lemma add_err_only_after_cancel : forall s, reachable s -> forall k,
  In (k, AddClosedErr) (adds s) -> ctx_done s = true.
Proof. intros s R. exact (inv_adds s (reachable_inv s R)). Qed.

Lemma no_loss : forall s, reachable s -> forall x,
  count x (accepted s) = held_count x (drains s) + count x (delivered s) /\
  count x (offered s) = queued_count x (inputs s) + count x (accepted s).
Proof. intros s R x. pose proof (reachable_inv s R) as I. split; [apply (inv_acc s I) | apply (inv_off s I)]. Qed.

Lemma held_zero_all_done : forall drs x, (forall d, In d drs -> d_pc d = DDone) -> held_count x drs = 0.
Proof.
  intros drs x. unfold held_count. induction drs as [|h t IH]; intros H; simpl; [reflexivity|].
  rewrite (H h (or_introl eq_refl)). simpl. apply IH. intros d Hd. apply H. right. exact Hd.
Qed.

Lemma no_loss_at_close : forall s, reachable s -> out_closed s = true -> forall x,
  count x (delivered s) = count x (accepted s).
Proof.
  intros s R H x. destruct (no_loss s R x) as [A _].
  rewrite (held_zero_all_done (drains s) x (no_send_on_closed s R H)) in A. lia.
Qed.

(* ---------------- progress ---------------- *)
Lemma step_ctx_done : forall s a s', step s a = Some s' -> ctx_done s = true -> ctx_done s' = true.
Proof. intros s a s' H C. destruct s; simpl in *. subst. inv_step H; reflexivity. Qed.

Lemma drain_weight_mk : forall k p,
  drain_weight (mkDrain k p) = match p with DRecv => 2 | DSend _ => 3 | DExit => 1 | DDone => 0 end.
Proof. reflexivity. Qed.

Lemma bound_dec : forall s a s', Inv s -> internal a = true -> step s a = Some s' -> bound s' < bound s.
Proof.
  intros s a s' I Ha H. destruct I as [I1 I2 I3 I4 I5 I6 I7 I8]. destruct s. simpl in *.
  unfold bound, main_weight. simpl.
  destruct a; try discriminate; inv_step H; simpl; live_facts.
  all: try solve [ unfold queued_total;
    repeat match goal with
    | H : nth_error ?l ?n = Some ?a |- context [sumf ?f (set_nth ?n ?x ?l)] =>
        let F := fresh "F" in pose proof (sumf_set_nth _ f l n a x H) as F;
        repeat rewrite drain_weight_mk in F; simpl in F;
        generalize dependent (sumf f (set_nth n x l)); intros
    end; destruct m_seen; chk; use_inv; simpl in *; try discriminate; try lia ].
Qed.

Lemma closed_lookup_set_nth : forall ins k c e q j,
  nth_error ins k = Some (mkInput c (e :: q)) ->
  (exists q0, nth_error ins j = Some (mkInput true q0)) ->
  exists q1, nth_error (set_nth k (mkInput c q) ins) j = Some (mkInput true q1).
Proof.
  intros ins k c e q j H [q0 H0]. destruct (Nat.eq_dec k j) as [<-|N].
  - rewrite H in H0. inversion H0; subst. exists q. eapply nth_error_set_nth_eq; eauto.
  - rewrite nth_error_set_nth_neq by exact N. eauto.
Qed.

Lemma dic_step : forall s a s', internal a = true -> step s a = Some s' ->
  drained_inputs_closed s -> drained_inputs_closed s'.
Proof.
  intros s a s' Ha H D. destruct s. unfold drained_inputs_closed in *. simpl in *.
  destruct a; try discriminate; inv_step H; simpl; intros d0 Hd0 Hnd;
    try (apply In_set_nth in Hd0; destruct Hd0 as [->|Hd0]; simpl in *; try discriminate);
    try solve [ apply D; assumption ].
  all: try solve [
    match goal with
    | Hn : nth_error ?drs ?n = Some ?a |- _ =>
        destruct (D a (nth_error_In _ _ Hn) eq_refl) as [q0 Hq0]; simpl in Hq0
    end;
    match goal with
    | |- exists q, nth_error (set_nth ?k _ _) ?k = _ => eexists; eapply nth_error_set_nth_eq; eauto
    | _ => eauto
    end ].
  all: try solve [
    destruct (D d0 Hd0 Hnd) as [q0 Hq0];
    match goal with
    | |- exists q, nth_error (set_nth ?k _ _) ?j = _ =>
        destruct (Nat.eq_dec k j) as [<-|N];
        [ match goal with Hi : nth_error ?ins k = Some _ |- _ =>
            rewrite Hi in Hq0; inversion Hq0; subst; eexists; eapply nth_error_set_nth_eq; eauto end
        | rewrite nth_error_set_nth_neq by exact N; eauto ]
    end ].
  all: try (destruct (D _ (nth_error_In _ _ Heqo) eq_refl) as [q9 Hq9]; simpl in Hq9).
  all: try (eapply closed_lookup_set_nth; [eassumption|]).
  all: try solve [ apply D; assumption | eauto | congruence ].
Qed.

Lemma live_pos_exists : forall drs, 0 < live drs ->
  exists n d, nth_error drs n = Some d /\ is_done (d_pc d) = false.
Proof.
  unfold live. induction drs as [|h t IH]; simpl; intros H; [lia|].
  destruct (is_done (d_pc h)) eqn:E.
  - destruct (IH H) as (n & d & A & B). exists (S n), d. split; assumption.
  - exists 0, h. split; [reflexivity | exact E].
Qed.

Definition some_enabled (s : state) : Prop := exists a, internal a = true /\ step s a <> None.

Lemma enabled_exists : forall s, Inv s -> ctx_done s = true -> drained_inputs_closed s ->
  m_pc s <> MDone -> some_enabled s.
Proof.
  intros s I C D N. destruct I as [I1 I2 I3 I4 I5 I6 I7 I8]. unfold drained_inputs_closed in D.
  destruct s. simpl in *. subst ctx_done.
  destruct m_pc; try congruence.
  - destruct m_seen.
    + specialize (I4 eq_refl eq_refl). rewrite I1 in I4.
      destruct (live_pos_exists drains ltac:(lia)) as (n & [k p] & A & B). simpl in B.
      destruct (D _ (nth_error_In _ _ A) B) as [q Hq]. simpl in Hq.
      destruct p; try discriminate.
      * exists (ADrainRecv n). split; [reflexivity|]. simpl. rewrite A, Hq. destruct q; discriminate.
      * exists (ADeliver n). split; [reflexivity|]. simpl. rewrite A. discriminate.
      * exists (ADrainExit n). split; [reflexivity|]. simpl. rewrite A. discriminate.
    + exists AMainCtx. split; [reflexivity|]. simpl. discriminate.
  - exists AMainClose. split; [reflexivity|]. simpl. discriminate.
  - exists AMainClose. split; [reflexivity|]. simpl. discriminate.
Qed.

Lemma first_enabled_some : forall s l a, first_enabled s l = Some a -> In a l /\ step s a <> None.
Proof.
  intros s l. induction l as [|h t IH]; intros a H; simpl in *; [discriminate|].
  unfold enabled in H. destruct (step s h) eqn:E.
  - inversion H; subst. split; [left; reflexivity | congruence].
  - destruct (IH a H) as [A B]. split; [right; exact A | exact B].
Qed.

Lemma first_enabled_none : forall s l, first_enabled s l = None -> forall a, In a l -> step s a = None.
Proof.
  intros s l. induction l as [|h t IH]; intros H a Ha; simpl in *; [tauto|].
  unfold enabled in H. destruct (step s h) eqn:E; [discriminate|].
  destruct Ha as [<-|Ha]; [exact E | apply IH; assumption].
Qed.

Lemma drain_actions_internal : forall n a, In a (drain_actions n) -> internal a = true.
Proof.
  intros n a H. unfold drain_actions in H. apply in_flat_map in H. destruct H as (d & _ & H).
  simpl in H. destruct H as [<-|[<-|[<-|[]]]]; reflexivity.
Qed.

Lemma drain_actions_complete : forall n d, d < n ->
  In (ADrainRecv d) (drain_actions n) /\ In (ADeliver d) (drain_actions n) /\ In (ADrainExit d) (drain_actions n).
Proof.
  intros n d H. unfold drain_actions. repeat split; apply in_flat_map; exists d;
    (split; [apply in_seq; lia | simpl; tauto]).
Qed.

Lemma pick_some : forall s a, pick s = Some a -> internal a = true /\ step s a <> None.
Proof.
  intros s a H. unfold pick in H. apply first_enabled_some in H. destruct H as [H E].
  split; [|exact E]. destruct H as [<-|[<-|H]]; try reflexivity. eapply drain_actions_internal; eauto.
Qed.

Lemma pick_none : forall s, pick s = None -> ~ some_enabled s.
Proof.
  intros s H (a & Ha & E). unfold pick in H. pose proof (first_enabled_none _ _ H) as F.
  apply E. destruct a; try discriminate.
  - destruct (lt_dec d (length (drains s))) as [L|L].
    + apply F. right. right. apply drain_actions_complete. exact L.
    + destruct s; simpl in *. destruct (nth_error drains d) eqn:X; [|reflexivity].
      exfalso. apply L. apply nth_error_Some. congruence.
  - destruct (lt_dec d (length (drains s))) as [L|L].
    + apply F. right. right. apply drain_actions_complete. exact L.
    + destruct s; simpl in *. destruct (nth_error drains d) eqn:X; [|reflexivity].
      exfalso. apply L. apply nth_error_Some. congruence.
  - destruct (lt_dec d (length (drains s))) as [L|L].
    + apply F. right. right. apply drain_actions_complete. exact L.
    + destruct s; simpl in *. destruct (nth_error drains d) eqn:X; [|reflexivity].
      exfalso. apply L. apply nth_error_Some. congruence.
  - apply F. left. reflexivity.
  - apply F. right. left. reflexivity.
Qed.

Lemma bound_zero_done : forall s, bound s = 0 -> done_closed s = true.
Proof.
  intros s H. unfold bound, main_weight, done_closed in *. destruct (m_pc s); try reflexivity;
    try (destruct (m_seen s)); lia.
Qed.

Lemma quiescent_done : forall s, Inv s -> ctx_done s = true -> drained_inputs_closed s ->
  ~ some_enabled s -> done_closed s = true.
Proof.
  intros s I C D N. unfold done_closed. destruct (m_pc s) eqn:E; try reflexivity;
    exfalso; apply N; apply enabled_exists; auto; congruence.
Qed.

Lemma auto_closes : forall n s, Inv s -> ctx_done s = true -> drained_inputs_closed s ->
  bound s <= n -> done_closed (auto n s) = true.
Proof.
  induction n as [|n IH]; intros s I C D B; simpl.
  - apply bound_zero_done. lia.
  - destruct (pick s) as [a|] eqn:P.
    + destruct (pick_some s a P) as [Ia Ea]. unfold step_skip.
      destruct (step s a) as [s'|] eqn:E; [|congruence].
      apply IH.
      * eapply step_inv; eauto.
      * eapply step_ctx_done; eauto.
      * eapply dic_step; eauto.
      * pose proof (bound_dec s a s' I Ia E). lia.
    + apply quiescent_done; auto. apply pick_none. exact P.
Qed.

Lemma strict_internal_bounded : forall acts s s', Inv s -> ctx_done s = true -> drained_inputs_closed s ->
  forallb internal acts = true -> run_strict s acts = Some s' ->
  length acts + bound s' <= bound s /\ Inv s' /\ ctx_done s' = true /\ drained_inputs_closed s'.
Proof.
  induction acts as [|a t IH]; intros s s' I C D F R; simpl in *.
  - inversion R; subst. split; [lia|]. split; [assumption|]. split; assumption.
  - apply andb_true_iff in F. destruct F as [Fa Ft].
    destruct (step s a) as [s1|] eqn:E; [|discriminate].
    pose proof (bound_dec s a s1 I Fa E) as B.
    destruct (IH s1 s' (step_inv _ _ _ I E) (step_ctx_done _ _ _ E C) (dic_step _ _ _ Fa E D) Ft R)
      as (L & I' & C' & D').
    split; [lia|]. split; [assumption|]. split; assumption.
Qed.

Lemma progress : forall s, reachable s -> ctx_done s = true -> drained_inputs_closed s ->
  done_closed (auto (bound s) s) = true /\
  forall acts s', forallb internal acts = true -> run_strict s acts = Some s' ->
    length acts <= bound s /\ (~ some_enabled s' -> done_closed s' = true).
Proof.
  intros s R C D. pose proof (reachable_inv s R) as I. split.
  - apply auto_closes; auto.
  - intros acts s' F E. destruct (strict_internal_bounded acts s s' I C D F E) as (L & I' & C' & D').
    split; [lia|]. intros N. apply quiescent_done; auto.
Qed.
