(* mon_C06p (Corr/CorrPipeline.v: two clauses of C06 on whole pipeline runs) as a
   theorem about the model, part 0: the walk on reversed traces.
   `c06_walk_gen strict` is the walk of the monitor with the clause "a Failed wait event is
   not followed by another Failed one" switched by `strict`: `c06_walk_gen false` IS
   `c06_walk`, the walk of `mon_C06p` (`c06_walk_gen_weak`); `c06_walk_gen true`
   (`mon_C06p_strict`, the first version of the monitor) also forbids Failed -> Failed,
   which the wait task does emit when an object reported Failed is then observed with a
   replaced UID (see PipelineMonC06p.v, `strict_walk_needs_calm`).
   `good strict tr` states the walk on the reversed trace `tr` (newest item first),
   the form in which the run state carries its trace. *)
From Coq Require Import List Bool Arith NArith ZArith Lia.
From CliUtils Require Import Model.ObjSet Model.ActuationTable Model.PipelineTypes Model.Pipeline
     Corr.CorrPipeline Proofs.PipelineMonC03a.
Import ListNotations.

(* ---- the last apply / prune result of an object, on a reversed trace ------------------ *)
Definition asel (i : id) (it : item) : list ast :=
  match it with
  | IEv (EApply _ j s) | IEv (EPrune _ j s) => if Nat.eqb i j then [s] else []
  | _ => []
  end.

Definition la (tr : list item) (i : id) : option ast :=
  match flat_map (asel i) tr with s :: _ => Some s | [] => None end.

Lemma asel_rev i it : rev (asel i it) = asel i it.
Proof.
  destruct it as [| |e|]; try reflexivity. destruct e; try reflexivity; cbn; destruct (Nat.eqb i i0); reflexivity.
Qed.

Lemma last_act_rev tr i : last_act (rev tr) i = la tr i.
Proof.
  unfold last_act, la. change (fun it : item => match it with
    | IEv (EApply _ j s) | IEv (EPrune _ j s) => if Nat.eqb i j then [s] else [] | _ => [] end) with (asel i).
  rewrite rev_flat_map_rev. rewrite (flat_map_ext _ (asel i)); [reflexivity|]. intros a. apply asel_rev.
Qed.

Lemma last_wait_rev0 tr i : last_wait (rev tr) i = lw tr i.
Proof.
  unfold last_wait, lw. change (fun it : item => match it with
    | IEv (EWait _ j s) => if Nat.eqb i j then [s] else [] | _ => [] end) with (wsel i).
  rewrite rev_flat_map_rev. rewrite (flat_map_ext _ (wsel i)); [reflexivity|]. intros a. apply wsel_rev.
Qed.

Lemma la_cons_other it tr j : asel j it = [] -> la (it :: tr) j = la tr j.
Proof. intros H. unfold la. cbn [flat_map]. rewrite H. reflexivity. Qed.

Lemma la_app_other l tr j : Forall (fun it => asel j it = []) l -> la (l ++ tr) j = la tr j.
Proof.
  induction 1 as [|it l H _ IH]; [reflexivity|]. cbn [app]. rewrite la_cons_other by exact H. exact IH.
Qed.

Lemma la_cons_apply g j x tr : la (IEv (EApply g j x) :: tr) j = Some x.
Proof. unfold la. cbn [flat_map asel]. rewrite Nat.eqb_refl. reflexivity. Qed.
Lemma la_cons_prune g j x tr : la (IEv (EPrune g j x) :: tr) j = Some x.
Proof. unfold la. cbn [flat_map asel]. rewrite Nat.eqb_refl. reflexivity. Qed.

Lemma asel_other_apply g i x j : j <> i -> asel j (IEv (EApply g i x)) = [].
Proof. intros N. cbn. destruct (Nat.eqb j i) eqn:E; [apply Nat.eqb_eq in E; contradiction|reflexivity]. Qed.
Lemma asel_other_prune g i x j : j <> i -> asel j (IEv (EPrune g i x)) = [].
Proof. intros N. cbn. destruct (Nat.eqb j i) eqn:E; [apply Nat.eqb_eq in E; contradiction|reflexivity]. Qed.
Lemma wsel_other_wait g i x j : j <> i -> wsel j (IEv (EWait g i x)) = [].
Proof. intros N. cbn. destruct (Nat.eqb j i) eqn:E; [apply Nat.eqb_eq in E; contradiction|reflexivity]. Qed.

(* ---- the clauses ------------------------------------------------------------------------ *)
Definition bad (o : option ast) : bool :=
  match o with Some AFail | Some ASkip => true | _ => false end.
Definition is_skip (s : wst) : bool := match s with WSkipped => true | _ => false end.
Definition seq_ok (strict : bool) (p : option wst) (s : wst) : bool :=
  match p, s with
  | Some WSkipped, _ | Some WTimedOut, _ => false
  | Some WOk, WOk | Some WPending, WPending => false
  | Some WFailed, WFailed => negb strict
  | _, _ => true
  end.
Definition wait_ok (strict : bool) (oa : option ast) (ow : option wst) (s : wst) : bool :=
  Bool.eqb (is_skip s) (bad oa) && seq_ok strict ow s.

Fixpoint c06_walk_gen (strict : bool) (pre t : list item) : bool :=
  match t with
  | [] => true
  | it :: rest =>
      (match it with
       | IEv (EWait _ i s) => wait_ok strict (last_act pre i) (last_wait pre i) s
       | _ => true
       end) && c06_walk_gen strict (pre ++ [it]) rest
  end.

(* the walk of mon_C06p is the weak one: Failed -> Failed permitted *)
Lemma c06_walk_gen_weak t : forall pre, c06_walk_gen false pre t = c06_walk pre t.
Proof.
  induction t as [|it rest IH]; intros pre; [reflexivity|].
  cbn [c06_walk_gen c06_walk]. rewrite IH. f_equal.
  destruct it as [| |e|]; try reflexivity. destruct e; try reflexivity.
  unfold wait_ok. destruct (last_act pre i) as [[]|]; destruct (last_wait pre i) as [[]|]; destruct s; reflexivity.
Qed.

Lemma mon_C06p_walk sc c0 out : mon_C06p sc c0 out = c06_walk_gen false [] (out_trace out).
Proof. unfold mon_C06p. symmetry. apply c06_walk_gen_weak. Qed.

(* remark: the strict variant, which also forbids Failed -> Failed (the first version of the monitor) *)
Definition mon_C06p_strict (sc : scenario) (c0 : cluster) (out : outcome) : bool :=
  c06_walk_gen true [] (out_trace out).

(* the strict walk implies the weak one *)
Lemma seq_ok_weaken p s : seq_ok true p s = true -> seq_ok false p s = true.
Proof. destruct p as [[]|]; destruct s; cbn; congruence. Qed.

Lemma c06_walk_gen_weaken t : forall pre, c06_walk_gen true pre t = true -> c06_walk_gen false pre t = true.
Proof.
  induction t as [|it rest IH]; intros pre; [reflexivity|].
  cbn [c06_walk_gen]. intros H. apply andb_true_iff in H. destruct H as [H1 H2].
  apply andb_true_iff. split; [|apply IH; exact H2].
  destruct it as [| |e|]; try reflexivity. destruct e; try reflexivity.
  unfold wait_ok in *. apply andb_true_iff in H1. destruct H1 as [A B].
  apply andb_true_iff. split; [exact A|apply seq_ok_weaken; exact B].
Qed.

Lemma mon_C06p_strict_weaker sc c0 out : mon_C06p_strict sc c0 out = true -> mon_C06p sc c0 out = true.
Proof. intros H. rewrite mon_C06p_walk. apply c06_walk_gen_weaken. exact H. Qed.

Lemma walk_app strict t1 : forall pre t2,
  c06_walk_gen strict pre (t1 ++ t2) = c06_walk_gen strict pre t1 && c06_walk_gen strict (pre ++ t1) t2.
Proof.
  induction t1 as [|it t1 IH]; intros pre t2.
  - cbn [app c06_walk_gen andb]. rewrite app_nil_r. reflexivity.
  - cbn [app c06_walk_gen]. rewrite IH, <- app_assoc, andb_assoc. reflexivity.
Qed.

(* ---- the walk on the reversed trace ---------------------------------------------------------- *)
Definition item_ok (strict : bool) (tr : list item) (it : item) : bool :=
  match it with
  | IEv (EWait _ i s) => wait_ok strict (la tr i) (lw tr i) s
  | _ => true
  end.

Fixpoint good (strict : bool) (tr : list item) : Prop :=
  match tr with
  | [] => True
  | it :: tr' => item_ok strict tr' it = true /\ good strict tr'
  end.

Lemma good_walk strict tr : good strict tr -> c06_walk_gen strict [] (rev tr) = true.
Proof.
  induction tr as [|it tr IH]; intros G; [reflexivity|].
  destruct G as [G1 G2]. cbn [rev]. rewrite walk_app, (IH G2). cbn [app andb c06_walk_gen].
  rewrite andb_true_r. destruct it as [| |e|]; try reflexivity. destruct e; try reflexivity.
  rewrite last_act_rev, last_wait_rev0. exact G1.
Qed.

Theorem good_monitor strict tr : good strict tr -> c06_walk_gen strict [] (rev tr ++ [IClosed]) = true.
Proof. intros G. rewrite walk_app, (good_walk strict tr G). reflexivity. Qed.

(* items that are neither a wait event nor an apply / prune result *)
Definition plain (it : item) : Prop := forall j, asel j it = [] /\ wsel j it = [].

Lemma plain_noev it : (forall e, it <> IEv e) -> plain it.
Proof. intros H j. destruct it as [| |e|]; try (split; reflexivity). exfalso. eapply H. reflexivity. Qed.

Lemma plain_item_ok strict tr it : plain it -> item_ok strict tr it = true.
Proof.
  intros P. destruct it as [| |e|]; try reflexivity. destruct e; try reflexivity.
  destruct (P i) as [_ W]. cbn in W. rewrite Nat.eqb_refl in W. discriminate.
Qed.

Lemma good_app_plain strict l tr : Forall plain l -> good strict tr -> good strict (l ++ tr).
Proof.
  induction 1 as [|it l P _ IH]; intros G; [exact G|].
  cbn [app good]. split; [apply plain_item_ok; exact P|apply IH; exact G].
Qed.

Lemma la_app_plain l tr j : Forall plain l -> la (l ++ tr) j = la tr j.
Proof. intros F. apply la_app_other. eapply Forall_impl; [|exact F]. intros it P. apply P. Qed.
Lemma lw_app_plain l tr j : Forall plain l -> lw (l ++ tr) j = lw tr j.
Proof. intros F. apply lw_app_other. eapply Forall_impl; [|exact F]. intros it P. apply P. Qed.

Lemma plain_ev_started g : plain (IEv (EStarted g)). Proof. intros j; split; reflexivity. Qed.
Lemma plain_ev_finished g : plain (IEv (EFinished g)). Proof. intros j; split; reflexivity. Qed.
Lemma plain_ev_error : plain (IEv EError). Proof. intros j; split; reflexivity. Qed.
Lemma plain_ev_init gs : plain (IEv (EInit gs)). Proof. intros j; split; reflexivity. Qed.
Lemma plain_ev_validation l : plain (IEv (EValidation l)). Proof. intros j; split; reflexivity. Qed.
Lemma plain_ev_status i st : plain (IEv (EStatus i st)). Proof. intros j; split; reflexivity. Qed.
Lemma plain_deliv d : plain (IDeliv d). Proof. intros j; split; reflexivity. Qed.
Lemma plain_req r ok m st : plain (IReq r ok m st). Proof. intros j; split; reflexivity. Qed.
