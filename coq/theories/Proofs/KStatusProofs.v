(* Lemmas about Model/KStatus.v used by C09 (shape of every outcome) and the
   structural facts about `compute` shared with C07 / C08. *)
From Coq Require Import List Bool ZArith String Lia.
From CliUtils Require Import Base.Json Model.KStatus.
Import ListNotations.
Local Open Scope string_scope.

(* the result shape demanded by C09 *)
Definition wf (o : outcome) : Prop :=
  match o with
  | Err => True
  | Ok s cs =>
      (s = InProgress /\ cs = [("Reconciling", "True")]) \/
      (s = Failed /\ cs = [("Stalled", "True")]) \/
      (s = Current /\ cs = []) \/
      (s = Terminating /\ cs = [])
  end.

Definition wf_opt (o : option outcome) : Prop :=
  match o with Some x => wf x | None => True end.

Lemma wf_in_progress : wf new_in_progress.
Proof. simpl. left. split; reflexivity. Qed.
Lemma wf_failed : wf new_failed.
Proof. simpl. right. left. split; reflexivity. Qed.
Lemma wf_current : wf current.
Proof. simpl. right. right. left. split; reflexivity. Qed.
Lemma wf_terminating : wf terminating.
Proof. simpl. right. right. right. split; reflexivity. Qed.
Lemma wf_err : wf Err.
Proof. exact I. Qed.

Ltac wf_base :=
  first [ exact wf_in_progress | exact wf_failed | exact wf_current
        | exact wf_terminating | exact wf_err | exact I | assumption ].

(* one case split per `if` / `match` of the model function *)
Ltac wf_split :=
  cbv zeta;
  repeat match goal with
         | |- wf (if ?b then _ else _) => destruct b
         | |- wf (match ?x with _ => _ end) => destruct x eqn:?
         | |- wf_opt (if ?b then _ else _) => destruct b
         | |- wf_opt (match ?x with _ => _ end) => destruct x eqn:?
         | |- wf_opt (Some _) => unfold wf_opt
         | |- wf_opt None => exact I
         end;
  try wf_base.

Lemma std_loop_wf : forall cs, wf_opt (std_loop cs).
Proof.
  induction cs as [|c t IH]; simpl.
  - exact I.
  - wf_split.
Qed.

Lemma check_generation_wf : forall j, wf_opt (check_generation j).
Proof. intros j. unfold check_generation. wf_split. Qed.

Lemma check_generic_wf : forall j, wf_opt (check_generic j).
Proof.
  intros j. unfold check_generic.
  pose proof (check_generation_wf j) as Hg.
  destruct (nested_string j p_deletion) as [s| |]; simpl.
  - destruct (negb (s =? "")); [exact wf_terminating|].
    destruct (check_generation j) as [o|]; [exact Hg|].
    destruct (get_object_with_conditions j) as [cs|]; [apply std_loop_wf|exact I].
  - destruct (check_generation j) as [o|]; [exact Hg|].
    destruct (get_object_with_conditions j) as [cs|]; [apply std_loop_wf|exact I].
  - exact I.
Qed.

Lemma sts_wf : forall j, wf (sts_conditions j).
Proof. intros j. unfold sts_conditions. wf_split. Qed.

Lemma deployment_wf : forall j, wf (deployment_conditions j).
Proof. intros j. unfold deployment_conditions. wf_split. Qed.

Lemma replicaset_wf : forall j, wf (replicaset_conditions j).
Proof. intros j. unfold replicaset_conditions. wf_split. Qed.

Lemma check_generation_set_wf : forall j, wf_opt (check_generation_set j).
Proof. intros j. unfold check_generation_set. wf_split. Qed.

Lemma daemonset_wf : forall j, wf (daemonset_conditions j).
Proof.
  intros j. unfold daemonset_conditions.
  pose proof (check_generation_set_wf j) as H.
  destruct (check_generation_set j) as [o|]; [exact H|]. wf_split.
Qed.

Lemma pvc_wf : forall j, wf (pvc_conditions j).
Proof. intros j. unfold pvc_conditions. wf_split. Qed.

Lemma pod_wf : forall j w, wf (pod_conditions j w).
Proof. intros j w. unfold pod_conditions. wf_split. Qed.

Lemma job_loop_wf : forall cs, wf_opt (job_loop cs).
Proof. induction cs as [|c t IH]; simpl; [exact I|]. wf_split. Qed.

Lemma job_wf : forall j, wf (job_conditions j).
Proof.
  intros j. unfold job_conditions. cbv zeta.
  destruct (get_object_with_conditions j) as [cs|]; [|exact I].
  pose proof (job_loop_wf cs) as H.
  destruct (job_loop cs) as [o|]; [exact H|]. wf_split.
Qed.

Lemma service_wf : forall j, wf (service_conditions j).
Proof. intros j. unfold service_conditions. wf_split. Qed.

Lemma crd_loop_wf : forall cs, wf_opt (crd_loop cs).
Proof. induction cs as [|c t IH]; simpl; [exact I|]. wf_split. Qed.

Lemma crd_wf : forall j, wf (crd_conditions j).
Proof.
  intros j. unfold crd_conditions.
  destruct (get_object_with_conditions j) as [cs|]; [|exact I].
  pose proof (crd_loop_wf cs) as H.
  destruct (crd_loop cs) as [o|]; [exact H|exact wf_in_progress].
Qed.

Lemma legacy_fn_wf : forall k j w, wf (legacy_fn k j w).
Proof.
  intros k j w. destruct k; simpl.
  - apply service_wf.
  - apply pod_wf.
  - exact wf_current.
  - apply pvc_wf.
  - apply sts_wf.
  - apply daemonset_wf.
  - apply deployment_wf.
  - apply replicaset_wf.
  - exact wf_current.
  - apply job_wf.
  - apply crd_wf.
Qed.

Lemma ready_loop_wf : forall cs, wf_opt (ready_loop cs).
Proof. induction cs as [|c t IH]; simpl; [exact I|]. wf_split. Qed.

Lemma check_ready_wf : forall j, wf_opt (check_ready_condition j).
Proof.
  intros j. unfold check_ready_condition.
  destruct (get_object_with_conditions j) as [cs|]; [apply ready_loop_wf|exact I].
Qed.

Lemma compute_wf : forall j w, wf (compute j w).
Proof.
  intros j w. unfold compute.
  pose proof (check_generic_wf j) as Hg.
  destruct (check_generic j) as [o|]; [exact Hg|].
  destruct (legacy_of_key (kind_key j)) as [k|]; [apply legacy_fn_wf|].
  pose proof (check_ready_wf j) as Hr.
  destruct (check_ready_condition j) as [o|]; [exact Hr|exact wf_current].
Qed.

(* the statement of C09 in the form used by Properties/C09.v *)
Lemma compute_wellformed : forall j w s cs,
  compute j w = Ok s cs ->
  (s = InProgress \/ s = Failed \/ s = Current \/ s = Terminating) /\
  (s = InProgress -> cs = [("Reconciling", "True")]) /\
  (s = Failed -> cs = [("Stalled", "True")]) /\
  (s = Current \/ s = Terminating -> cs = []).
Proof.
  intros j w s cs H. pose proof (compute_wf j w) as Hw. rewrite H in Hw. simpl in Hw.
  destruct Hw as [[Hs Hc]|[[Hs Hc]|[[Hs Hc]|[Hs Hc]]]]; subst s cs;
    (split; [tauto|]); repeat split; intros H'; try reflexivity; try discriminate;
    destruct H' as [H'|H']; discriminate.
Qed.

Lemma compute_total : forall j w,
  compute j w = Err \/
  exists s cs, compute j w = Ok s cs /\ s <> NotFound /\ s <> Unknown.
Proof.
  intros j w. destruct (compute j w) as [s cs|] eqn:E; [right|left; reflexivity].
  exists s, cs. split; [reflexivity|].
  destruct (compute_wellformed j w s cs E) as [[H|[H|[H|H]]] _]; subst s; split; discriminate.
Qed.

(* the clock is read by the Pod rule only *)
Lemma compute_clock : forall j,
  legacy_of_key (kind_key j) <> Some LPod -> compute j true = compute j false.
Proof.
  intros j H. unfold compute.
  destruct (check_generic j); [reflexivity|].
  destruct (legacy_of_key (kind_key j)) as [k|]; [|reflexivity].
  destruct k; try reflexivity. contradiction H. reflexivity.
Qed.

Lemma pod_clock : forall j,
  pod_conditions j true <> pod_conditions j false ->
  get_string_field j ["status"; "phase"] "" = "Pending" /\
  exists cs c, get_object_with_conditions j = Some cs /\
               get_cond_with_status cs "PodScheduled" "False" = Some c /\
               c_reason c = "Unschedulable".
Proof.
  intros j. unfold pod_conditions. cbv zeta.
  destruct (get_object_with_conditions j) as [cs|]; [|intros H; contradiction H; reflexivity].
  destruct (get_string_field j ["status"; "phase"] "" =? "Succeeded"); [intros H; contradiction H; reflexivity|].
  destruct (get_string_field j ["status"; "phase"] "" =? "Failed"); [intros H; contradiction H; reflexivity|].
  destruct (get_string_field j ["status"; "phase"] "" =? "Running"); [intros H; contradiction H; reflexivity|].
  destruct (get_string_field j ["status"; "phase"] "" =? "Pending") eqn:Ep; [|intros H; contradiction H; reflexivity].
  apply String.eqb_eq in Ep.
  destruct (get_cond_with_status cs "PodScheduled" "False") as [c|] eqn:Ec; [|intros H; contradiction H; reflexivity].
  destruct (c_reason c =? "Unschedulable") eqn:Er; [|intros H; contradiction H; reflexivity].
  apply String.eqb_eq in Er. intros _. split; [exact Ep|]. exists cs, c. auto.
Qed.
