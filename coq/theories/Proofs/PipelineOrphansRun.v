(* C01 (no orphans), part 5: the whole run.  Well-formedness of a scenario /
   initial cluster, the invariant at the start of the task list, and the
   theorems about `run`. *)
From Coq Require Import List Bool Arith NArith ZArith Lia Permutation.
From CliUtils Require Import Model.ObjSet Model.ActuationTable Model.PipelineTypes Model.Pipeline
     Proofs.ObjSetProofs Proofs.ActuationTableProofs Proofs.PipelineBase Proofs.PipelineAuth
     Corr.CorrPipeline Proofs.PipelineOrphansBase Proofs.PipelineOrphansSpec Proofs.PipelineOrphansInv
     Proofs.PipelineOrphansWait Proofs.PipelineOrphansPlan.
Import ListNotations.

(* ---- hypotheses of the theorem --------------------------------------------------------- *)
Definition WF (sc : scenario) (c0 : cluster) : Prop :=
  (* an apply set names each object once *)
  (o_destroy (sc_opts sc) = false -> NoDup (map l_id (sc_local sc))) /\
  (* the cluster is a map from identifiers to objects *)
  NoDup (map c_id (objs c0)) /\
  (* UIDs: below the server's counter, one per object *)
  (forall c, In c (objs c0) -> (c_uid c < next_uid c0)%N) /\
  (forall c c', In c (objs c0) -> In c' (objs c0) -> c_uid c = c_uid c' -> c_id c = c_id c') /\
  (* an existing inventory object lives in an existing namespace (or that namespace is tracked) *)
  (forall n l, sc_inv_ns sc = Some n -> inv c0 = Some l -> In n (map c_id (objs c0)) \/ In n l) /\
  (* the destroyer always prunes *)
  (o_destroy (sc_opts sc) = true -> o_prune (sc_opts sc) = true) /\
  (* the status watcher does not lie about an object held by a finalizer: such an object is never
     reported NotFound, nor with a UID other than the one it has in the cluster *)
  (forall w o, In w (e_waits (sc_env sc)) -> In o (w_deliv w) -> u_fin (uinfo_of sc (s_id o)) = true ->
     s_st o <> SNotFound /\
     (s_body o = true -> s_uid o <> 0%N -> forall c, In c (objs c0) -> c_id c = s_id o -> s_uid o = c_uid c)) /\
  (* a tracked custom resource of the cluster has its CRD in the cluster: the kind of every tracked live
     object is known to a freshly reset RESTMapper (a real API server cannot hold a custom resource
     without its CRD; the pruner skips inventory entries of unknown kind and they leave the inventory) *)
  (forall c, In c (objs c0) -> In (c_id c) (prev_of c0) -> kind_known sc (live_crds sc c0) (c_id c) = true).

(* the known finding C01-invns-apply-failed does not occur in the run: it is not
   the case that the inventory namespace n, not tracked before the run, was created by the inventory-add
   task, the inventory-set task was started, and the apply of n failed or was skipped *)
Definition kf_free (sc : scenario) (c0 : cluster) : Prop :=
  forall n m st g, ~ In n (inv0 c0) ->
    In (IReq (RNsCreate n) true m st) (out_trace (run sc c0)) ->
    In (IEv (EStarted (GInvSet, 0))) (out_trace (run sc c0)) ->
    ~ In (IEv (EApply g n AFail)) (out_trace (run sc c0)) /\
    ~ In (IEv (EApply g n ASkip)) (out_trace (run sc c0)).

Lemma KFp_incl prev t t' : (forall x, In x t -> In x t') -> KFp prev t' -> KFp prev t.
Proof.
  intros H K n m st g H0 H1 H2. destruct (K n m st g H0 (H _ H1) (H _ H2)) as [A B].
  split; intros X; [apply A|apply B]; apply H; exact X.
Qed.

Section RunJ.
  Variable sc : scenario.
  Variable c0 : cluster.
  Hypothesis HWF : WF sc c0.

  Notation dry := (is_dry (o_dry (sc_opts sc))).

  Lemma wf_nodup : NoDup (ids_of c0).
  Proof. apply HWF. Qed.
  Lemma wf_uid_lt i c : fo c0 i = Some c -> (c_uid c < next_uid c0)%N.
  Proof. intros H. apply HWF. eapply find_obj_In. exact H. Qed.
  Lemma wf_uid_inj i j c c' : fo c0 i = Some c -> fo c0 j = Some c' -> c_uid c = c_uid c' -> i = j.
  Proof.
    intros H1 H2 E. destruct HWF as [_ [_ [_ [W _]]]].
    pose proof (W c c' (find_obj_In _ _ _ H1) (find_obj_In _ _ _ H2) E) as X.
    apply find_obj_id in H1. apply find_obj_id in H2. congruence.
  Qed.
  Lemma wf_ns n l : sc_inv_ns sc = Some n -> inv c0 = Some l -> fo c0 n <> None \/ In n l.
  Proof.
    intros H1 H2. destruct HWF as [_ [_ [_ [_ [W _]]]]]. destruct (W n l H1 H2) as [X|X]; [left|right; exact X].
    unfold fo. intros Y. apply find_obj_none in Y. contradiction.
  Qed.
  Lemma wf_crd i c : fo c0 i = Some c -> In i (inv0 c0) -> kind_known sc (live_crds sc c0) i = true.
  Proof.
    intros Hc Hi. destruct HWF as [_ [_ [_ [_ [_ [_ [_ W]]]]]]].
    rewrite <- (find_obj_id _ _ _ Hc). apply W; [eapply find_obj_In; exact Hc|].
    rewrite (find_obj_id _ _ _ Hc). exact Hi.
  Qed.
  Lemma wf_fin w o : In w (e_waits (sc_env sc)) -> In o (w_deliv w) -> finok sc c0 o.
  Proof.
    intros Hw Ho UF. destruct HWF as [_ [_ [_ [_ [_ [_ [W _]]]]]]]. destruct (W w o Hw Ho UF) as [A B].
    split; [exact A|]. intros Hb Hu c Hc. apply (B Hb Hu c); [eapply find_obj_In; exact Hc|eapply find_obj_id; exact Hc].
  Qed.

  (* ---- the invariant at the start of the task list ------------------------------------------ *)
  Section Init.
    Variable pl : plan.
    Variable td tw : list id.
    Variable s : rst.
    Hypothesis S_cl : r_cl s = c0.
    Hypothesis S_cache : r_cache s = [].
    Hypothesis S_ab : r_aband s = [].
    Hypothesis S_tr : r_tr s = [].
    Hypothesis S_keys : NoDup (tkeys (r_tbl s)).
    Hypothesis S_tv : forall j, tv s j =
      if negb (o_destroy (sc_opts sc)) && negb (o_prune (sc_opts sc)) && memn j (map p_id (pl_prune_all pl))
      then Some (SDelete, ASkipped, 0%N)
      else if o_prune (sc_opts sc) && memn j (pids pl) then Some (SDelete, APending, 0%N)
      else if memn j (apply_ids pl) then Some (SApply, APending, 0%N) else None.
    Hypothesis P_disj : forall j, In j (apply_ids pl) -> ~ In j (map p_id (pl_prune_all pl)).
    Hypothesis P_sub : forall j, In j (pids pl) -> In j (map p_id (pl_prune_all pl)).
    Hypothesis P_td : NoDup td /\ forall j, In j td <-> In j (apply_ids pl) \/ (o_prune (sc_opts sc) = true /\ In j (pids pl)).

    Lemma memn_false x l : memn x l = false <-> ~ In x l.
    Proof. rewrite <- memn_In. destruct (memn x l); split; congruence. Qed.

    Lemma init_tv_apply j : In j (apply_ids pl) -> tv s j = Some (SApply, APending, 0%N).
    Proof.
      intros H. rewrite S_tv.
      rewrite (proj2 (memn_false j (map p_id (pl_prune_all pl))) (P_disj j H)).
      rewrite (proj2 (memn_false j (pids pl))) by (intros X; exact (P_disj j H (P_sub j X))).
      rewrite (proj2 (memn_In j (apply_ids pl)) H), !andb_false_r. reflexivity.
    Qed.

    Lemma init_tv_prune j : In j (pids pl) ->
      (o_prune (sc_opts sc) = true /\ tv s j = Some (SDelete, APending, 0%N)) \/
      (o_prune (sc_opts sc) = false /\ tv s j = Some (SDelete, ASkipped, 0%N)).
    Proof.
      intros H. rewrite S_tv.
      rewrite (proj2 (memn_In j (map p_id (pl_prune_all pl))) (P_sub j H)), (proj2 (memn_In j (pids pl)) H), !andb_true_r.
      destruct (o_prune (sc_opts sc)) eqn:EP.
      - left. rewrite andb_false_r. auto.
      - right. destruct (o_destroy (sc_opts sc)) eqn:ED; [|auto].
        destruct HWF as [_ [_ [_ [_ [_ [W _]]]]]]. rewrite (W ED) in EP. discriminate.
    Qed.

    Lemma init_tv_inv j st a u : tv s j = Some (st, a, u) ->
      (st = SApply /\ a = APending /\ In j (apply_ids pl)) \/
      (st = SDelete /\ a = APending /\ o_prune (sc_opts sc) = true /\ In j (pids pl)) \/
      (st = SDelete /\ a = ASkipped).
    Proof.
      rewrite S_tv.
      destruct (negb (o_destroy (sc_opts sc)) && negb (o_prune (sc_opts sc)) && memn j (map p_id (pl_prune_all pl))).
      { intros [= <- <- <-]. auto. }
      destruct (o_prune (sc_opts sc) && memn j (pids pl)) eqn:E2.
      { intros [= <- <- <-]. apply andb_true_iff in E2. rewrite memn_In in E2. right; left. tauto. }
      destruct (memn j (apply_ids pl)) eqn:E3; [|discriminate].
      intros [= <- <- <-]. apply memn_In in E3. auto.
    Qed.

    Lemma init_Big : Big sc c0 pl P0 td tw s.
    Proof.
      constructor.
      - rewrite S_cl. exact wf_nodup.
      - exact S_keys.
      - apply P_td.
      - rewrite S_cl. apply N.le_refl.
      - rewrite S_cl. apply J_c0.
      - intros _. rewrite S_cl. reflexivity.
      - discriminate.
      - intros j. constructor; rewrite ?S_cl, ?S_ab, ?S_tr.
        + intros c Hc. left. exists c. auto.
        + intros st a u H ->. destruct (init_tv_inv _ _ _ _ H) as [[_ [-> X]]|[[X _]|[X _]]]; try discriminate.
          split; [exact X|discriminate].
        + intros H. exists APending, 0%N. apply init_tv_apply. exact H.
        + intros c Hc Ho. left. exists c. auto.
        + intros c _ _ Hp. destruct (init_tv_prune j Hp) as [[_ E]|[_ E]]; rewrite E.
          * exists APending, 0%N. split; [reflexivity|]. split; [intros []|discriminate].
          * exists ASkipped, 0%N. split; [reflexivity|]. split; [intros []|discriminate].
        + intros H. apply (proj2 P_td) in H. destruct H as [H|[HP H]].
          * exists SApply, 0%N. apply init_tv_apply. exact H.
          * destruct (init_tv_prune j H) as [[_ E]|[X _]]; [|congruence]. exists SDelete, 0%N. exact E.
        + intros st u H. apply (proj2 P_td). destruct (init_tv_inv _ _ _ _ H) as [[_ [_ X]]|[[_ [_ X]]|[_ X]]]; [left; exact X|right; exact X|discriminate].
        + intros u H. destruct (init_tv_inv _ _ _ _ H) as [[_ [X _]]|[[X _]|[X _]]]; discriminate.
        + intros u H. destruct (init_tv_inv _ _ _ _ H) as [[_ [X _]]|[[X _]|[X _]]]; discriminate.
        + intros [].
        + intros [m [st []]].
        + intros _ H. exact H.
      - intros o Ho. rewrite S_cache in Ho. destruct Ho.
    Qed.
  End Init.

  (* ---- the run ------------------------------------------------------------------------------- *)
  Lemma cache_fetch_all ids : forall s, r_cache (fst (fetch_all sc s ids)) = r_cache s.
  Proof.
    induction ids as [|i t IH]; intros s; cbn [fetch_all]; [reflexivity|].
    destruct (negb (kind_known sc (r_known s) i)); [apply IH|].
    pose proof (cache_get_obj sc s i) as G. destruct (get_obj sc s i) as [s1 g]. cbn [fst] in G.
    destruct g; cbn [fst]; [exact G|rewrite IH; exact G|].
    specialize (IH s1). destruct (fetch_all sc s1 t) as [s2 r]. cbn [fst] in *. congruence.
  Qed.
  Lemma cache_register pl s : r_cache (register sc pl s) = r_cache s.
  Proof.
    unfold register.
    assert (F : forall (l : list pobj) st a s0, r_cache (fold_left (fun s p => rec_add s (p_id p) st a 0%N 0%Z) l s0) = r_cache s0).
    { induction l as [|p l IH]; intros st a s0; cbn [fold_left]; [reflexivity|]. rewrite IH. reflexivity. }
    destruct (negb (o_destroy (sc_opts sc)) && negb (o_prune (sc_opts sc))); destruct (o_prune (sc_opts sc));
      rewrite ?F; reflexivity.
  Qed.
  Lemma val_fold_same errs : forall s,
    let s' := fold_left (fun s e => ev s (EValidation (sortn e))) errs s in r_tbl s' = r_tbl s /\ r_cache s' = r_cache s.
  Proof.
    induction errs as [|e t IH]; intros s; cbn [fold_left]; [split; reflexivity|].
    destruct (IH (ev s (EValidation (sortn e)))) as [A B]. cbv zeta in *. rewrite A, B. split; reflexivity.
  Qed.

  Definition good (sf : rst) : Prop :=
    Forall (Qj sc c0) (r_tr sf) /\ NoDup (ids_of (r_cl sf)) /\ J sc c0 (r_cl sf).

  Lemma good_error s : r_cl s = c0 -> r_tr s = [] -> good (ev s EError).
  Proof.
    intros C T. unfold good. cbn [ev emit r_tr r_cl]. rewrite C, T.
    split; [constructor; [exact I|constructor]|]. split; [exact wf_nodup|apply J_c0].
  Qed.

  Lemma run_state_good : KFp (inv0 c0) (r_tr (run_state sc c0)) -> good (run_state sc c0).
  Proof.
    intros KF. unfold run_state in *. cbv zeta in *.
    pose proof (same4_inv_list sc (init_state sc c0)) as L1. pose proof (inv_list_res sc (init_state sc c0)) as R1.
    pose proof (cache_inv_list sc (init_state sc c0)) as KC1. pose proof (known_inv_list sc (init_state sc c0)) as KN1.
    destruct (inv_list sc (init_state sc c0)) as [s1 r1]. cbn [fst snd] in *. destruct L1 as [C1 [B1 [A1 T1]]].
    cbn [init_state r_cl r_tbl r_aband r_tr r_known] in *.
    destruct r1 as [st|]; [|apply good_error; assumption].
    specialize (R1 st eq_refl). subst st.
    set (locals := if o_destroy (sc_opts sc) then [] else sc_local sc) in *.
    match goal with |- context [fetch_all sc s1 ?c] => set (cand := c) in * end.
    pose proof (same4_fetch_all sc cand s1) as L2. pose proof (fetch_all_cl sc cand s1) as [_ [_ FC]].
    pose proof (fetch_all_complete sc cand s1) as FCo. pose proof (fetch_all_NoDup sc cand s1) as FN.
    pose proof (cache_fetch_all cand s1) as KC2. pose proof (known_fetch_all sc cand s1) as KN2.
    destruct (fetch_all sc s1 cand) as [s2 r2]. cbn [fst snd] in *. destruct L2 as [C2 [B2 [A2 T2]]].
    destruct r2 as [pobjs|]; [|apply good_error; congruence].
    specialize (FC pobjs eq_refl). specialize (FCo pobjs eq_refl). rewrite C1 in FC, FCo.
    (* the plan *)
    assert (HL : NoDup (map l_id locals)).
    { unfold locals. destruct (o_destroy (sc_opts sc)) eqn:ED; [constructor|]. destruct HWF as [W _]. apply W. exact ED. }
    assert (NC : NoDup cand).
    { unfold cand. apply sortn_NoDup. apply (diff_NoDup nat Nat.eqb nat_eqb_spec). }
    assert (HP : NoDup (map c_id pobjs)) by (apply FN; [exact NC|reflexivity]).
    assert (HC : forall c, In c pobjs -> In (c_id c) (inv0 c0) /\ ~ In (c_id c) (map l_id locals) /\ fo c0 (c_id c) = Some c).
    { intros c Hc. destruct (FC c Hc) as [X Y]. unfold cand in X. apply (proj1 (sortn_In _ _)) in X.
      apply (proj1 (diffn_In _ _ _)) in X. split; [exact (proj1 X)|]. split; [exact (proj2 X)|exact Y]. }
    assert (HD : forall c, In c pobjs -> ~ In (c_id c) (map l_id locals)) by (intros c Hc; apply (HC c Hc)).
    set (known := r_known s2) in *.
    set (pl := build_plan sc known locals pobjs) in *.
    assert (PL_disj0 : forall j, In j (apply_ids pl) -> ~ In j (map p_id (pl_prune_all pl))) by (apply bp_disj; assumption).
    assert (PL_sub : forall j, In j (pids pl) -> In j (map p_id (pl_prune_all pl))).
    { intros j Hj. unfold pids in Hj. apply in_map_iff in Hj. destruct Hj as [q [<- Hq]]. apply in_map. apply bp_prune_sub. exact Hq. }
    assert (PL_disj : forall j, In j (apply_ids pl) -> ~ In j (pids pl)) by (intros j Hj X; exact (PL_disj0 j Hj (PL_sub j X))).
    assert (PL_c0 : forall c, In (pobj_of_live c) (pl_prune pl) -> fo c0 (c_id c) = Some c).
    { intros c Hc. destruct (bp_prune_valid sc _ _ _ _ Hc) as [X _]. apply (HC c X). }
    assert (PL_cover : forall i c, fo c0 i = Some c -> In i (inv0 c0) ->
               In i (apply_ids pl) \/ In i (pl_invalid pl) \/ In i (pids pl)).
    { intros i c Hc Hi. destruct (in_dec Nat.eq_dec i (map l_id locals)) as [X|X].
      - destruct (bp_cover_local sc known locals pobjs i X); auto.
      - assert (Hcand : In i cand) by (unfold cand; apply sortn_In; apply diffn_In; split; assumption).
        assert (Hk : kind_known sc (r_known s1) i = true) by (rewrite KN1; exact (wf_crd i c Hc Hi)).
        pose proof (FCo i c Hcand Hk Hc) as Hin. pose proof (find_obj_id _ _ _ Hc) as EI.
        destruct (bp_cover_prune sc known locals pobjs c Hin) as [Y|Y]; [right; left; rewrite <- EI; exact Y|right; right].
        unfold pids. apply in_map_iff. exists (pobj_of_live c). split; [exact EI|exact Y]. }
    assert (PL_noapply : o_destroy (sc_opts sc) = true -> pl_apply pl = []).
    { intros D. destruct (pl_apply pl) as [|q t] eqn:E; [reflexivity|]. exfalso.
      destruct (bp_apply_is_local sc known locals pobjs q) as [l [_ Hl]]; [fold pl; rewrite E; left; reflexivity|].
      unfold locals in Hl. rewrite D in Hl. destruct Hl. }
    assert (PL_destroy : o_destroy (sc_opts sc) = true -> apply_ids pl = []).
    { intros D. unfold apply_ids. rewrite (PL_noapply D). reflexivity. }
    assert (PL_local : forall q l, In q (pl_apply pl) -> p_local q = Some l -> l_id l = p_id q).
    { intros q l Hq E. destruct (bp_apply_is_local sc known locals pobjs q Hq) as [l' [-> _]]. cbn in E. injection E as <-. reflexivity. }
    pose proof (sched_tasks_of sc known locals pobjs HL HP HD PL_noapply) as SCHED. fold pl in SCHED.
    pose proof (tasks_todo sc known locals pobjs HL HP HD) as TODO. fold pl in TODO.
    set (td := todo_of (tasks_of sc pl)) in *.
    (* registration and the second read *)
    assert (ET2 : r_tbl s2 = []) by congruence.
    destruct (register_spec sc pl s2 ET2) as [C3 [A3 [T3 [K3 V3]]]]. cbv zeta in *.
    set (s3 := register sc pl s2) in *.
    pose proof (same4_inv_list sc s3) as L4. pose proof (inv_list_res sc s3) as R4.
    pose proof (cache_inv_list sc s3) as KC4. pose proof (cache_register pl s2) as KC3. fold s3 in KC3.
    destruct (inv_list sc s3) as [s4 r4]. cbn [fst snd] in *. destruct L4 as [C4 [B4 [A4 T4]]].
    assert (KA4 : r_cache s4 = []) by (rewrite KC4, KC3, KC2, KC1; reflexivity).
    set (tw := wtodo_of (tasks_of sc pl)) in *.
    assert (CL4 : r_cl s4 = c0) by congruence.
    assert (TR4 : r_tr s4 = []) by congruence.
    assert (AB4 : r_aband s4 = []) by congruence.
    assert (I4 : Ij sc c0 pl P0 td tw s4).
    { unfold Ij. destruct dry; [exact CL4|].
      apply init_Big; auto.
      - rewrite B4. exact K3.
      - intros j. unfold tv. rewrite B4. apply V3. }
    assert (HPV : forall pv, option_map (fun st0 : option (list id) => match st0 with Some l => l | None => [] end) r4 = Some pv ->
                  pv = inv0 c0).
    { intros pv E. destruct r4 as [x|]; [|discriminate]. specialize (R4 x eq_refl).
      rewrite C3, C2, C1 in R4. subst x. cbn in E. injection E as <-. reflexivity. }
    assert (FIN : forall sf f' td' tw', stepj sc c0 pl P0 td tw f' td' tw' s4 sf -> KFp (inv0 c0) (r_tr sf) -> good sf).
    { intros sf f' td' tw' [l [E H]] K. destruct (H K I4) as [If F]. rewrite TR4, app_nil_r in E.
      unfold good. rewrite E. split; [exact F|]. unfold Ij in If. destruct dry.
      - rewrite If. split; [exact wf_nodup|apply J_c0].
      - split; [exact (B_nd _ _ _ _ _ _ _ If)|exact (B_J _ _ _ _ _ _ _ If)]. }
    assert (V : forall errs s, stepj sc c0 pl P0 td tw P0 td tw s (fold_left (fun s e => ev s (EValidation (sortn e))) errs s)).
    { intros errs s. destruct (val_fold_same errs s) as [X1 X2].
      apply stepj_quiet; [apply quiet_fold; intros; apply quiet_ev|exact X1|exact X2]. }
    assert (TASKS : forall errs,
      let s6 := ev (fold_left (fun s e => ev s (EValidation (sortn e))) errs s4)
                   (EInit (map (fun t => (task_name t, task_ids pl t)) (tasks_of sc pl))) in
      let sf := match e_cancel (sc_env sc) with
                | CBeforeSync => ev s6 EError
                | _ => run_tasks sc pl locals
                         (option_map (fun st0 : option (list id) => match st0 with Some l => l | None => [] end) r4)
                         s6 (tasks_of sc pl)
                end in
      KFp (inv0 c0) (r_tr sf) -> good sf).
    { intros errs s6 sf K.
      assert (S6 : stepj sc c0 pl P0 td tw P0 td tw s4 s6) by (eapply stepj_trans; [apply V|apply stepj_ev]).
      destruct (j_run_tasks sc c0 pl wf_nodup wf_uid_lt wf_uid_inj wf_ns PL_disj PL_c0 PL_cover PL_destroy PL_local wf_fin
                  locals _ HPV (tasks_of sc pl) P0 s6 SCHED) as [f' [td' [tw' RT]]].
      unfold sf in *. destruct (e_cancel (sc_env sc)).
      - eapply FIN; [eapply stepj_trans; [exact S6|exact RT]|exact K].
      - eapply FIN; [eapply stepj_trans; [exact S6|apply stepj_ev]|exact K].
      - eapply FIN; [eapply stepj_trans; [exact S6|exact RT]|exact K]. }
    destruct (o_valpol (sc_opts sc)); destruct (pl_valerrs pl) eqn:EV; try (apply TASKS; exact KF).
    apply good_error; assumption.
  Qed.
End RunJ.

(* ---- the theorems about `run` ------------------------------------------------------------- *)
Lemma in_out_trace sc c0 x :
  In x (out_trace (run sc c0)) <-> x = IClosed \/ In x (r_tr (run_state sc c0)).
Proof.
  rewrite (run_is_finish sc). unfold finish. cbn [out_trace]. rewrite <- in_rev. cbn. intuition.
Qed.

Lemma kf_free_KFp sc c0 : kf_free sc c0 -> KFp (inv0 c0) (r_tr (run_state sc c0)).
Proof.
  intros K. apply (KFp_incl _ _ (out_trace (run sc c0))); [|exact K].
  intros x Hx. apply in_out_trace. right. exact Hx.
Qed.

(* every snapshot taken after a mutating request, i.e. every crash point *)
Theorem orphans_trace sc c0 : WF sc c0 -> kf_free sc c0 ->
  forall r ok m st, In (IReq r ok m st) (out_trace (run sc c0)) ->
    snap_ok sc c0 m st = true /\
    (r = RInvDelete -> ok = true -> forall i, In i m -> In i (exempt0 c0)).
Proof.
  intros W K r ok m st H. apply in_out_trace in H. destruct H as [H|H]; [discriminate|].
  destruct (run_state_good sc c0 W (kf_free_KFp sc c0 K)) as [F _].
  rewrite Forall_forall in F. exact (F _ H).
Qed.

(* the state the run leaves behind *)
Theorem orphans_final sc c0 : WF sc c0 -> kf_free sc c0 ->
  snap_ok sc c0 (managed (out_final (run sc c0))) (inv (out_final (run sc c0))) = true.
Proof.
  intros W K. destruct (run_state_good sc c0 W (kf_free_KFp sc c0 K)) as [_ [N HJ]].
  rewrite (run_is_finish sc). unfold finish. cbn [out_final]. apply J_snap_norm; assumption.
Qed.

(* the executable statement of the property evaluated by the correspondence harness *)
Theorem orphans_monitor sc c0 : WF sc c0 -> kf_free sc c0 -> mon_C01 sc c0 (run sc c0) = true.
Proof.
  intros W K. unfold mon_C01. apply andb_true_iff. split; [|apply orphans_final; assumption].
  apply forallb_forall. intros [[[r ok] m] st] Hx. unfold snaps in Hx. apply in_flat_map in Hx.
  destruct Hx as [it [Hit Hx]]. destruct it as [r' ok' m' st'| | |]; cbn in Hx; try contradiction.
  destruct Hx as [E|[]]. injection E as -> -> -> ->.
  destruct (orphans_trace sc c0 W K _ _ _ _ Hit) as [A B]. rewrite A. cbn [andb].
  destruct r; try reflexivity. destruct ok; try reflexivity.
  unfold subsetn. apply forallb_forall. intros i Hi. apply memn_In. exact (B eq_refl eq_refl i Hi).
Qed.

(* kf_free holds trivially when the inventory-add task created no namespace *)
Lemma kf_free_no_nscreate sc c0 :
  (forall n m st, ~ In (IReq (RNsCreate n) true m st) (out_trace (run sc c0))) -> kf_free sc c0.
Proof. intros H n m st g _ X. exfalso. exact (H n m st X). Qed.

(* ... and when the inventory-set task is not reached (cancellation, task failure) *)
Lemma kf_free_no_inv_set sc c0 :
  ~ In (IEv (EStarted (GInvSet, 0))) (out_trace (run sc c0)) -> kf_free sc c0.
Proof. intros H n m st g _ _ X. exfalso. exact (H X). Qed.

(* the known finding: the full statement (without kf_free) is false for the model, as for the implementation *)
Definition kf_witness_sc : scenario :=
  mkSc [mkU KNs None None; mkU KPlain (Some 0) None] (Some 0)
       [mkL 0 [] false false false 1; mkL 1 [] false false false 1]
       (mkO false true PMustMatch DNone VSkipInvalid true false false false PropBackground false)
       (mkE [FApply 0] [] CNever None).
Definition kf_witness_c0 : cluster := mkCl [] None 1%N.

Lemma kf_witness_WF : WF kf_witness_sc kf_witness_c0.
Proof.
  unfold WF. cbn. split.
  - intros _. constructor; [intros [H|[]]; discriminate|]. constructor; [intros []|constructor].
  - split; [constructor|]. split; [intros c []|]. split; [intros c c' []|]. split; [discriminate|].
    split; [discriminate|]. split; [intros w o []|intros c []].
Qed.

Lemma invns_refuted : exists sc c0, WF sc c0 /\ mon_C01 sc c0 (run sc c0) = false.
Proof. exists kf_witness_sc, kf_witness_c0. split; [exact kf_witness_WF|vm_compute; reflexivity]. Qed.

(* the destroyer never creates a namespace: no hypothesis on the run is needed *)
Lemma run_plan_locals sc c0 pl locals : run_plan sc c0 = Some (pl, locals) ->
  locals = if o_destroy (sc_opts sc) then [] else sc_local sc.
Proof.
  unfold run_plan. cbv zeta. destruct (inv_list sc (init_state sc c0)) as [s1 r1]. destruct r1 as [st|]; [|discriminate].
  destruct (fetch_all sc s1 _) as [s2 r2]. destruct r2 as [pobjs|]; [|discriminate]. intros [= _ <-]. reflexivity.
Qed.

Lemma kf_free_destroy sc c0 : o_destroy (sc_opts sc) = true -> kf_free sc c0.
Proof.
  intros D n m st g _ H _. exfalso. pose proof (auth_run sc c0) as A.
  destruct (run_plan sc c0) as [[pl locals]|] eqn:RP.
  - rewrite Forall_forall in A. specialize (A _ H). cbn in A.
    destruct (run_plan_apply_valid sc c0 pl locals n RP A) as [_ X].
    rewrite (run_plan_locals sc c0 pl locals RP), D in X. destruct X.
  - exact (A _ _ _ _ H).
Qed.

Theorem orphans_destroy sc c0 : WF sc c0 -> o_destroy (sc_opts sc) = true -> mon_C01 sc c0 (run sc c0) = true.
Proof. intros W D. apply orphans_monitor; [exact W|apply kf_free_destroy; exact D]. Qed.

(* ---- kf_free as a boolean, for concrete runs --------------------------------------------------- *)
Definition kf_patternb (prev : list id) (t : list item) : bool :=
  existsb (fun it =>
    match it with
    | IReq (RNsCreate n) true _ _ =>
        negb (memn n prev)
        && existsb (fun x => match x with IEv (EStarted (GInvSet, 0)) => true | _ => false end) t
        && existsb (fun x => match x with
                             | IEv (EApply _ n' AFail) | IEv (EApply _ n' ASkip) => Nat.eqb n n'
                             | _ => false end) t
    | _ => false
    end) t.
Definition kf_freeb (sc : scenario) (c0 : cluster) : bool :=
  negb (kf_patternb (inv0 c0) (out_trace (run sc c0))).

Lemma kf_freeb_sound sc c0 : kf_freeb sc c0 = true -> kf_free sc c0.
Proof.
  unfold kf_freeb. intros H. apply negb_true_iff in H. intros n m st g Hp H1 H2.
  assert (X : forall a, (a = AFail \/ a = ASkip) -> ~ In (IEv (EApply g n a)) (out_trace (run sc c0))).
  { intros a Ha Hin. assert (kf_patternb (inv0 c0) (out_trace (run sc c0)) = true); [|congruence].
    unfold kf_patternb. apply existsb_exists. exists (IReq (RNsCreate n) true m st). split; [exact H1|].
    apply andb_true_iff. split; [apply andb_true_iff; split|].
    - apply negb_true_iff. apply memn_false. exact Hp.
    - apply existsb_exists. exists (IEv (EStarted (GInvSet, 0))). split; [exact H2|reflexivity].
    - apply existsb_exists. exists (IEv (EApply g n a)). split; [exact Hin|].
      destruct Ha as [-> | ->]; apply Nat.eqb_refl. }
  split; apply X; auto.
Qed.

(* ---- WF as a boolean (definitions at the end of Corr/CorrPipeline.v) -------------------------------- *)
Lemma kst_eqb_eq a b : kst_eqb a b = true <-> a = b.
Proof. destruct a, b; cbn; split; congruence. Qed.

Lemma fin_obs_ok_spec sc c0 o : fin_obs_ok sc c0 o = true <->
  (u_fin (uinfo_of sc (s_id o)) = true ->
   s_st o <> SNotFound /\
   (s_body o = true -> s_uid o <> 0%N -> forall c, In c (objs c0) -> c_id c = s_id o -> s_uid o = c_uid c)).
Proof.
  unfold fin_obs_ok. destruct (u_fin (uinfo_of sc (s_id o))); cbn [negb orb]; [|split; [discriminate|reflexivity]].
  rewrite andb_true_iff, negb_true_iff, !orb_true_iff, negb_true_iff, N.eqb_eq, forallb_forall. split.
  - intros [A B] _. split; [intros E; rewrite E in A; discriminate|].
    intros Hb Hu c Hc Hi. destruct B as [[B|B]|B]; [congruence|contradiction|].
    specialize (B c Hc). apply orb_true_iff in B. destruct B as [B|B]; [|apply N.eqb_eq; exact B].
    apply negb_true_iff, Nat.eqb_neq in B. contradiction.
  - intros H. destruct (H eq_refl) as [A B]. split.
    + destruct (kst_eqb (s_st o) SNotFound) eqn:E; [|reflexivity]. apply kst_eqb_eq in E. contradiction.
    + destruct (s_body o); [|left; left; reflexivity]. destruct (N.eq_dec (s_uid o) 0) as [Z|Z]; [left; right; exact Z|right].
      intros c Hc. apply orb_true_iff. destruct (Nat.eqb (c_id c) (s_id o)) eqn:E; [right|left; reflexivity].
      apply Nat.eqb_eq in E. apply N.eqb_eq. apply B; auto.
Qed.

Lemma wf_fin_b_spec sc c0 : wf_fin_b sc c0 = true <->
  (forall w o, In w (e_waits (sc_env sc)) -> In o (w_deliv w) -> u_fin (uinfo_of sc (s_id o)) = true ->
     s_st o <> SNotFound /\
     (s_body o = true -> s_uid o <> 0%N -> forall c, In c (objs c0) -> c_id c = s_id o -> s_uid o = c_uid c)).
Proof.
  unfold wf_fin_b. rewrite forallb_forall. split.
  - intros H w o Hw Ho. specialize (H w Hw). rewrite forallb_forall in H. apply fin_obs_ok_spec. apply H. exact Ho.
  - intros H w Hw. apply forallb_forall. intros o Ho. apply fin_obs_ok_spec. apply (H w o Hw Ho).
Qed.

Lemma nodupb_spec l : nodupb l = true <-> NoDup l.
Proof.
  induction l as [|x t IH]; cbn; [split; [constructor|reflexivity]|].
  rewrite andb_true_iff, negb_true_iff, IH. split.
  - intros [A B]. constructor; [|exact B]. intros X. apply memn_In in X. congruence.
  - intros H. inversion H as [|? ? A B]; subst. split; [|exact B].
    destruct (memn x t) eqn:E; [|reflexivity]. apply memn_In in E. contradiction.
Qed.

Lemma wf_crd_b_spec sc c0 : wf_crd_b sc c0 = true <->
  (forall c, In c (objs c0) -> In (c_id c) (prev_of c0) -> kind_known sc (live_crds sc c0) (c_id c) = true).
Proof.
  unfold wf_crd_b. rewrite forallb_forall. split.
  - intros H c Hc Hp. specialize (H c Hc). apply orb_true_iff in H. destruct H as [H|H]; [|exact H].
    apply negb_true_iff in H. apply memn_In in Hp. congruence.
  - intros H c Hc. apply orb_true_iff. destruct (memn (c_id c) (prev_of c0)) eqn:E; [right|left; reflexivity].
    apply memn_In in E. apply H; assumption.
Qed.

Lemma wf_b_spec sc c0 : wf_b sc c0 = true <-> WF sc c0.
Proof.
  unfold wf_b, WF. rewrite !andb_true_iff, !orb_true_iff, !negb_true_iff, !nodupb_spec, wf_fin_b_spec, wf_crd_b_spec, !forallb_forall.
  assert (E4 : (forall c, In c (objs c0) ->
                  forallb (fun c' => negb (N.eqb (c_uid c) (c_uid c')) || Nat.eqb (c_id c) (c_id c')) (objs c0) = true) <->
               (forall c c', In c (objs c0) -> In c' (objs c0) -> c_uid c = c_uid c' -> c_id c = c_id c')).
  { split.
    - intros H c c' Hc Hc' E. specialize (H c Hc). rewrite forallb_forall in H. specialize (H c' Hc').
      apply orb_true_iff in H. destruct H as [H|H]; [|apply Nat.eqb_eq; exact H].
      apply negb_true_iff, N.eqb_neq in H. contradiction.
    - intros H c Hc. apply forallb_forall. intros c' Hc'. apply orb_true_iff.
      destruct (N.eqb (c_uid c) (c_uid c')) eqn:E; [right|left; reflexivity].
      apply N.eqb_eq in E. apply Nat.eqb_eq. auto. }
  assert (E5 : match sc_inv_ns sc, inv c0 with
               | Some n, Some l => memn n (map c_id (objs c0)) || memn n l
               | _, _ => true
               end = true <->
               (forall n l, sc_inv_ns sc = Some n -> inv c0 = Some l -> In n (map c_id (objs c0)) \/ In n l)).
  { destruct (sc_inv_ns sc) as [n|]; [|split; [intros _ n l X; discriminate X|reflexivity]].
    destruct (inv c0) as [l|]; [|split; [intros _ n0 l X Y; discriminate Y|reflexivity]].
    rewrite orb_true_iff, !memn_In. split.
    - intros H n0 l0 [= <-] [= <-]. exact H.
    - intros H. apply (H n l); reflexivity. }
  rewrite E4, E5.
  assert (E3 : (forall c, In c (objs c0) -> N.ltb (c_uid c) (next_uid c0) = true) <->
               (forall c, In c (objs c0) -> (c_uid c < next_uid c0)%N)).
  { split; intros H c Hc; specialize (H c Hc); apply N.ltb_lt; exact H. }
  rewrite E3.
  destruct (o_destroy (sc_opts sc)); destruct (o_prune (sc_opts sc)); intuition congruence.
Qed.
