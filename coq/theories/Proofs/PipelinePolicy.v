(* C02, apply side: an apply request over an existing object is sent only if the
   inventory-policy apply filter passed for the object as it is live. *)
From Coq Require Import List Bool Arith NArith ZArith Lia.
From CliUtils Require Import Model.ObjSet Model.ActuationTable Model.PipelineTypes Model.Pipeline
     Proofs.PipelineBase Proofs.PipelineEvents Proofs.PipelineAuth.
Import ListNotations.

Section Policy.
  Variable sc : scenario.

  (* what the InventoryPolicyApplyFilter decides *)
  Lemma policy_apply_filter_spec s i :
    let r := snd (policy_apply_filter sc s i) in
    (r = FPass <->
       o_policy (sc_opts sc) = PAdoptAll \/
       (faulted sc (FGet i (count_n i (r_gets s))) = false /\
        match find_obj (objs (r_cl s)) i with
        | None => True
        | Some c => can_apply sc (c_owner c) = true
        end)).
  Proof.
    assert (G : forall pol, pol <> PAdoptAll -> o_policy (sc_opts sc) = pol ->
              (snd (let '(s1, g) := get_obj sc s i in
                    match g with
                    | GFault => (s1, FFatal)
                    | GNotFound => (s1, FPass)
                    | GFound c => (s1, if can_apply sc (c_owner c) then FPass else FSkip)
                    end) = FPass <->
               o_policy (sc_opts sc) = PAdoptAll \/
               (faulted sc (FGet i (count_n i (r_gets s))) = false /\
                match find_obj (objs (r_cl s)) i with
                | None => True
                | Some c => can_apply sc (c_owner c) = true
                end))).
    { intros pol NA EP. unfold get_obj. cbv zeta.
      destruct (faulted sc (FGet i (count_n i (r_gets s)))); cbn [snd].
      - split; [discriminate|]. intros [H|[H _]]; [congruence|discriminate].
      - destruct (find_obj (objs (r_cl s)) i) as [c|]; cbn [snd].
        + destruct (can_apply sc (c_owner c)).
          * split; [intros _; right; split; reflexivity|reflexivity].
          * split; [discriminate|]. intros [H|[_ H]]; [congruence|discriminate].
        + split; [intros _; right; split; [reflexivity|exact I]|reflexivity]. }
    unfold policy_apply_filter. cbv zeta.
    destruct (o_policy (sc_opts sc)) eqn:EP.
    - apply (G PMustMatch); [discriminate|reflexivity].
    - apply (G PAdoptIfNoInventory); [discriminate|reflexivity].
    - cbn [snd]. split; [auto|reflexivity].
  Qed.

  (* the policy matrix of CanApply *)
  Lemma can_apply_matrix ow :
    can_apply sc ow = match ow, o_policy (sc_opts sc) with
                      | OOurs, _ => true
                      | ONone, PMustMatch => false
                      | ONone, _ => true
                      | OOther, PAdoptAll => true
                      | OOther, _ => false
                      end.
  Proof. unfold can_apply. destruct ow, (o_policy (sc_opts sc)); reflexivity. Qed.

  Lemma get_obj_tr_policy s i : r_tr (fst (policy_apply_filter sc s i)) = r_tr s.
  Proof.
    unfold policy_apply_filter. destruct (o_policy (sc_opts sc)); cbn [fst]; try reflexivity.
    all: pose proof (get_obj_tr sc s i) as G; destruct (get_obj sc s i) as [s1 g]; cbn [fst] in G;
      destruct g; cbn [fst]; exact G.
  Qed.

  (* apply_one sends nothing unless the policy filter (and the dependency filter) passed *)
  Lemma apply_one_gate pl g s p :
    snd (policy_apply_filter sc s (p_id p)) <> FPass ->
    forall r ok m st, In (IReq r ok m st) (r_tr (apply_one sc pl g s p)) -> In (IReq r ok m st) (r_tr s).
  Proof.
    intros NP r ok m st. unfold apply_one. destruct (p_local p) as [l|]; [|auto].
    destruct (negb (kind_known sc (r_known s) (p_id p))).
    { cbn. intros [H|H]; [discriminate|exact H]. }
    pose proof (get_obj_tr_policy s (p_id p)) as T.
    destruct (policy_apply_filter sc s (p_id p)) as [s1 f1]. cbn [snd fst] in *.
    destruct f1; [congruence| |]; cbn; intros [H|H]; try discriminate; rewrite T in H; exact H.
  Qed.
End Policy.
