(* mon_C04_obs (Corr/CorrPipeline.v), part B: the invariant o4_Inv of part A
   through the wait machine (wait_start / deliver / wait_update / wait_timeout),
   through every task, through the task list of the plan, and in the final
   run state.  Everything here is proved; nothing is assumed. *)
From Coq Require Import List Bool Arith NArith ZArith Lia Permutation.
From CliUtils Require Import Model.ObjSet Model.ActuationTable Model.PipelineTypes Model.Pipeline
     Proofs.ObjSetProofs Proofs.ActuationTableProofs Proofs.PipelineBase Proofs.PipelineAuth
     Corr.CorrPipeline Proofs.PipelineOrphansBase Proofs.PipelineOrphansSpec Proofs.PipelineOrphansInv
     Proofs.PipelineOrphansPlan Proofs.PipelineMonBase Proofs.PipelineOrphansRun Proofs.PipelineMonPack
     Proofs.PipelineWaitFrame Proofs.PipelineMonC04obsA.
Import ListNotations.

Lemma o4_remove_In l x j : In j (remove Nat.eqb l x) -> In j l.
Proof.
  intros H. destruct (in_dec Nat.eq_dec x l) as [X|X].
  - pose proof (remove_present nat Nat.eqb nat_eqb_spec l x X) as P.
    eapply Permutation_in; [exact P|right; exact H].
  - rewrite (remove_absent nat Nat.eqb nat_eqb_spec l x X) in H. exact H.
Qed.

(* ---- the wait machine --------------------------------------------------------------------------- *)
Section Wait.
  Variable sc : scenario.
  Variable aids : list id.
  Variable Dn : list id.
  Variable ids : list id.
  (* the objects of the apply set in this wait task are not among those whose wait is over *)
  Hypothesis HID : forall i, In i ids -> In i aids -> ~ In i Dn.

  Notation Inv := (o4_Inv aids Dn).

  (* what is known of every object of the wait task: AllCurrent - its record is
     not pending (the apply task ran just before); AllNotFound - it is no object
     of the apply set *)
  Definition o4_side (c : wcond) (s : rst) (i : id) : Prop :=
    match c with AllCurrent => o4_npend s i | AllNotFound => ~ In i aids end.
  (* what licenses a wait event of i *)
  Definition o4_jst (c : wcond) (s : rst) (i : id) : Prop :=
    match c with AllCurrent => o4_srec aids s i | AllNotFound => ~ In i aids end.
  Definition o4_WS (c : wcond) (s : rst) (pend : list id) : Prop :=
    Inv s /\ (forall i, In i ids -> o4_side c s i) /\ (forall i, In i pend -> o4_jst c s i).

  Lemma o4_side_tv c s s' i : (forall j, tv s' j = tv s j) -> o4_side c s i -> o4_side c s' i.
  Proof. destruct c; [apply o4_tv_same_npend|intros _ H; exact H]. Qed.
  Lemma o4_jst_tv c s s' i : (forall j, tv s' j = tv s j) -> o4_jst c s i -> o4_jst c s' i.
  Proof. destruct c; [apply o4_tv_same_srec|intros _ H; exact H]. Qed.

  Lemma o4_ws_jst c s pend i : o4_WS c s pend -> In i ids -> w_skipped c s i = false -> o4_jst c s i.
  Proof.
    intros [I [S _]] Hi SK. specialize (S i Hi). destruct c; cbn in *; [|exact S].
    apply o4_nsk; [apply I|exact S|exact SK].
  Qed.

  Lemma o4_ws_wev c s pend pend' g i rc w :
    o4_WS c s pend -> (w = WOk -> In i ids) ->
    (w = WOk -> o4_jst c s i /\ (c = AllCurrent -> changed_uid s i = false /\ cond_met AllCurrent s i = true)) ->
    (forall j, In j pend' -> In j pend \/ (j = i /\ o4_jst c s i)) ->
    o4_WS c (ev (rec_reconcile s i rc) (EWait g i w)) pend'.
  Proof.
    intros [I [S P]] HI J PP.
    destruct (o4_rec_reconcile_fields s i rc) as [_ [_ [_ EV]]].
    assert (EV' : forall j, tv (ev (rec_reconcile s i rc) (EWait g i w)) j = tv s j) by (intros j; exact (EV j)).
    split; [|split].
    - apply o4_inv_wev; [|exact I]. intros -> Hi. split; [exact (HID i (HI eq_refl) Hi)|].
      destruct (J eq_refl) as [J1 J2]. destruct c; cbn in J1.
      + destruct (J1 Hi) as [u E]. destruct (J2 eq_refl) as [CU CM]. exact (o4_wok_just aids Dn s i u I Hi E CU CM).
      + contradiction.
    - intros j Hj. eapply o4_side_tv; [exact EV'|exact (S j Hj)].
    - intros j Hj. eapply o4_jst_tv; [exact EV'|]. destruct (PP j Hj) as [H|[-> H]]; [exact (P j H)|exact H].
  Qed.

  Lemma o4_ws_other c s pend pend' g i rc w :
    o4_WS c s pend -> w <> WOk -> o4_jst c s i -> (forall j, In j pend' -> In j pend \/ j = i) ->
    o4_WS c (ev (rec_reconcile s i rc) (EWait g i w)) pend'.
  Proof.
    intros W NW J PP. apply (o4_ws_wev c s pend); [exact W|intros X; contradiction|intros X; contradiction|].
    intros j Hj. destruct (PP j Hj) as [H|H]; [left; exact H|right; split; [exact H|exact J]].
  Qed.

  Lemma o4_ws_wok c s pend pend' g i :
    o4_WS c s pend -> In i ids -> o4_jst c s i -> changed_uid s i = false -> cond_met c s i = true ->
    (forall j, In j pend' -> In j pend \/ j = i) ->
    o4_WS c (ev (rec_reconcile s i RSucceeded) (EWait g i WOk)) pend'.
  Proof.
    intros W HI J CU CM PP. apply (o4_ws_wev c s pend); [exact W|intros _; exact HI| |].
    - intros _. split; [exact J|]. intros ->. split; assumption.
    - intros j Hj. destruct (PP j Hj) as [H|H]; [left; exact H|right; split; [exact H|exact J]].
  Qed.

  Lemma o4_ws_hcu c s pend pend' g i :
    o4_WS c s pend -> In i ids -> o4_jst c s i -> (forall j, In j pend' -> In j pend \/ j = i) ->
    o4_WS c (handle_changed_uid c g s i) pend'.
  Proof.
    intros W HI J PP. unfold handle_changed_uid. destruct c.
    - apply (o4_ws_other AllCurrent s pend); [exact W|discriminate|exact J|exact PP].
    - apply (o4_ws_wev AllNotFound s pend); [exact W|intros _; exact HI| |].
      + intros _. split; [exact J|discriminate].
      + intros j Hj. destruct (PP j Hj) as [H|H]; [left; exact H|right; split; [exact H|exact J]].
  Qed.

  Lemma o4_ws_wait_start c g s : o4_WS c s [] ->
    o4_WS c (fst (wait_start c g ids s)) (w_pending (snd (wait_start c g ids s))).
  Proof.
    intros W. unfold wait_start.
    set (stepf := fun (acc : rst * list id) (i : id) => _).
    assert (H : forall l acc, incl l ids -> o4_WS c (fst acc) (snd acc) ->
                  o4_WS c (fst (fold_left stepf l acc)) (snd (fold_left stepf l acc))).
    { induction l as [|i l IH]; intros acc IL WA; cbn [fold_left]; [exact WA|].
      apply IH; [intros x Hx; apply IL; right; exact Hx|].
      assert (Hi : In i ids) by (apply IL; left; reflexivity).
      destruct acc as [s0 pend]. unfold stepf. cbn [fst snd] in *.
      assert (SM : forall j, In j pend -> In j pend \/ j = i) by (intros; left; assumption).
      destruct (w_skipped c s0 i) eqn:SK; cbn [fst snd].
      - apply (o4_ws_wev c s0 pend); [exact WA|discriminate|discriminate|intros j Hj; left; exact Hj].
      - assert (J : o4_jst c s0 i) by (eapply o4_ws_jst; eassumption).
        destruct (changed_uid s0 i) eqn:CU; cbn [fst snd]; [apply (o4_ws_hcu c s0 pend); assumption|].
        destruct (cond_met c s0 i) eqn:CM; cbn [fst snd]; [apply (o4_ws_wok c s0 pend); assumption|].
        apply (o4_ws_other c s0 pend); [exact WA|discriminate|exact J|].
        intros j Hj. apply in_app_or in Hj. destruct Hj as [Hj|[<-|[]]]; auto. }
    specialize (H ids (s, []) (incl_refl _) W).
    destruct (fold_left stepf ids (s, [])) as [s' pend]. exact H.
  Qed.

  Lemma o4_ws_wait_update c g s w i : o4_WS c s (w_pending w) -> In i ids ->
    o4_WS c (fst (wait_update c g ids s w i)) (w_pending (snd (wait_update c g ids s w i))).
  Proof.
    intros W Hi. unfold wait_update.
    assert (RM : forall j, In j (remove Nat.eqb (w_pending w) i) -> In j (w_pending w) \/ j = i)
      by (intros j H; left; exact (o4_remove_In _ _ _ H)).
    assert (SM : forall j, In j (w_pending w) -> In j (w_pending w) \/ j = i) by (intros; left; assumption).
    assert (AD : forall j, In j (w_pending w ++ [i]) -> In j (w_pending w) \/ j = i)
      by (intros j H; apply in_app_or in H; destruct H as [H|[<-|[]]]; auto).
    destruct (memn i (w_pending w)) eqn:MP.
    - assert (J : o4_jst c s i) by (apply W; apply memn_In; exact MP).
      destruct (changed_uid s i) eqn:CU; cbn [fst snd w_pending]; [apply (o4_ws_hcu c s (w_pending w)); assumption|].
      destruct (cond_met c s i) eqn:CM; cbn [fst snd w_pending]; [apply (o4_ws_wok c s (w_pending w)); assumption|].
      destruct (failed_by_id s i); cbn [fst snd w_pending]; [|exact W].
      apply (o4_ws_other c s (w_pending w)); try assumption; discriminate.
    - destruct (negb (memn i ids)); [exact W|].
      destruct (w_skipped c s i) eqn:SK; [exact W|].
      assert (J : o4_jst c s i) by (eapply o4_ws_jst; eassumption).
      destruct (memn i (w_failed w)).
      + destruct (changed_uid s i) eqn:CU; cbn [fst snd w_pending]; [apply (o4_ws_hcu c s (w_pending w)); assumption|].
        destruct (cond_met c s i) eqn:CM; cbn [fst snd w_pending]; [apply (o4_ws_wok c s (w_pending w)); assumption|].
        destruct (negb (failed_by_id s i)); cbn [fst snd w_pending]; [|exact W].
        apply (o4_ws_other c s (w_pending w)); try assumption; discriminate.
      + destruct (changed_uid s i) eqn:CU.
        * destruct c; [|exact W].
          destruct (is_reconcile Nat.eqb (r_tbl s) i RFailed); [exact W|]. cbn [fst snd].
          apply (o4_ws_hcu AllCurrent s (w_pending w)); assumption.
        * destruct (negb (cond_met c s i)) eqn:CM; cbn [fst snd w_pending].
          { apply (o4_ws_other c s (w_pending w)); try assumption; discriminate. }
          apply negb_false_iff in CM.
          destruct (is_reconcile Nat.eqb (r_tbl s) i RFailed); cbn [fst snd]; [|exact W].
          apply (o4_ws_wok c s (w_pending w)); assumption.
  Qed.

  Lemma o4_ws_deliver c g ds : forall s w, o4_WS c s (w_pending w) ->
    o4_WS c (fst (deliver sc c g ids ds s w)) (w_pending (snd (deliver sc c g ids ds s w))).
  Proof.
    induction ds as [|d t IH]; intros s w W; cbn [deliver]; [exact W|].
    destruct (w_pending w) eqn:EP; [cbn [fst snd]; rewrite EP; exact W|]. rewrite <- EP in *. clear EP.
    set (s2 := if o_status_events (sc_opts sc) then ev (emit s (IDeliv d)) (EStatus (s_id d) (s_st d)) else emit s (IDeliv d)).
    set (s3 := set_cache s2 (d :: r_cache s2)).
    assert (W3 : o4_WS c s3 (w_pending w)).
    { destruct W as [I [S P]].
      assert (TV : forall j, tv s3 j = tv s j) by (intros j; unfold s3, s2; destruct (o_status_events (sc_opts sc)); reflexivity).
      split; [exact (o4_inv_deliv aids Dn (o_status_events (sc_opts sc)) s d I)|].
      split; [intros j Hj; eapply o4_side_tv; [exact TV|exact (S j Hj)]|].
      intros j Hj. eapply o4_jst_tv; [exact TV|exact (P j Hj)]. }
    destruct (memn (s_id d) ids) eqn:M.
    - apply memn_In in M. pose proof (o4_ws_wait_update c g s3 w (s_id d) W3 M) as U.
      destruct (wait_update c g ids s3 w (s_id d)) as [s4 w4]. cbn [fst snd] in U. apply IH. exact U.
    - apply IH. exact W3.
  Qed.

  Lemma o4_inv_set_abort s : Inv s -> Inv (set_abort s).
  Proof.
    apply o4_inv_gstep. apply (o4_gstep_tbl aids s (set_abort s) []); try reflexivity; [apply o4_Cl_refl|constructor|constructor].
  Qed.

  Lemma o4_inv_wait_reset c s : Inv s -> Inv (wait_reset sc c ids s).
  Proof.
    apply o4_inv_gstep. apply (o4_gstep_tbl aids s (wait_reset sc c ids s) []);
      [apply wait_reset_tbl|apply wait_reset_cache|rewrite wait_reset_cl; apply o4_Cl_refl|apply wait_reset_tr|constructor|constructor].
  Qed.

  Lemma o4_inv_wait_timeout g w : forall s, Inv s -> Inv (wait_timeout g s w).
  Proof.
    unfold wait_timeout. induction (w_pending w) as [|i l IH]; intros s I; cbn [fold_left]; [exact I|].
    apply IH. apply o4_inv_wev; [discriminate|exact I].
  Qed.

  Lemma o4_inv_wait_task c g s : o4_WS c s [] -> Inv (wait_task sc c g ids s).
  Proof.
    intros W. unfold wait_task. cbv zeta.
    pose proof (o4_ws_wait_start c g s W) as S1.
    destruct (wait_start c g ids s) as [s1 w1]. cbn [fst snd] in S1.
    destruct (w_pending w1) eqn:EP; [apply o4_inv_wait_reset; apply S1|]. rewrite <- EP in *. clear EP.
    destruct (match e_watch_err_at (sc_env sc) with Some n => Nat.eqb n (snd g) | None => false end);
      [apply o4_inv_set_abort; apply S1|].
    pose proof (o4_ws_deliver c g (w_deliv (nth (snd g) (e_waits (sc_env sc)) (mkW [] WTimeout))) s1 w1 S1) as S2.
    destruct (deliver sc c g ids _ s1 w1) as [s2 w2]. cbn [fst snd] in S2.
    destruct (w_pending w2); [apply o4_inv_wait_reset; apply S2|].
    destruct (w_end _).
    - destruct (match c with AllCurrent => _ | AllNotFound => _ end);
        [apply o4_inv_wait_reset; apply o4_inv_wait_timeout; apply S2|apply o4_inv_set_abort; apply S2].
    - apply o4_inv_set_abort; apply S2.
  Qed.
End Wait.

(* ---- tasks ------------------------------------------------------------------------------------------ *)
Lemma o4_Inv_mono aids D D' s : incl D D' -> o4_Inv aids D s -> o4_Inv aids D' s.
Proof.
  intros I [V G T1 T2a T2g]. constructor; try assumption.
  intros i Hi. apply V. intros X. apply Hi. apply I. exact X.
Qed.

Section Tasks.
  Variable sc : scenario.
  Variable pl : plan.
  Hypothesis HD : is_dry (o_dry (sc_opts sc)) = false.

  Notation aids := (apply_ids pl).
  Notation Inv := (o4_Inv (apply_ids pl)).
  Notation gstep := (o4_gstep (apply_ids pl)).
  Notation R := o4_R.

  Hypothesis DISJ : forall j, In j aids -> ~ In j (map p_id (pl_prune pl)).
  Hypothesis PL_local : forall p l, In p (pl_apply pl) -> p_local p = Some l -> l_id l = p_id p.

  (* the shape of a task list the invariant can be carried through; `done` = the ids of the wait
     tasks that are over, `last` = the ids of the apply task that has just run *)
  Fixpoint o4_cwf (done last : list id) (ts : list task) : Prop :=
    match ts with
    | [] => True
    | TApply _ L :: r => Forall (o4_lok aids pl) L /\ (forall i, In i (map p_id L) -> ~ In i done) /\ o4_cwf done (map p_id L) r
    | TWait _ AllCurrent ids :: r => incl ids last /\ o4_cwf (ids ++ done) [] r
    | TWait _ AllNotFound ids :: r => (forall i, In i ids -> ~ In i aids) /\ o4_cwf (ids ++ done) [] r
    | TPrune _ L :: r => Forall (prune_ok pl) L /\ o4_cwf done [] r
    | _ :: r => o4_cwf done [] r
    end.
  Definition o4_last_of (t : task) : list id := match t with TApply _ L => map p_id L | _ => [] end.
  Definition o4_done_of (done : list id) (t : task) : list id := match t with TWait _ _ ids => ids ++ done | _ => done end.

  Lemma o4_inv_ev D s e : o4_nwok (IEv e) -> Inv D s -> Inv D (ev s e).
  Proof. intros H. apply o4_inv_gstep. apply o4_gstep_ev. exact H. Qed.

  Lemma o4_R_same D s s' : r_tbl s' = r_tbl s -> R D s -> R D s'.
  Proof. intros E H i Hi. unfold rc. rewrite E. exact (H i Hi). Qed.

  Lemma o4_inv_apply_task D g L : Forall (o4_lok aids pl) L -> forall s, R D s -> Inv D s ->
    Inv D (apply_task sc pl g s L) /\ R D (apply_task sc pl g s L).
  Proof.
    unfold apply_task. induction 1 as [|p L Hp _ IH]; intros s HR I; cbn [fold_left]; [split; assumption|].
    apply IH; [apply (o4_R_apply_one sc aids D HD); assumption|apply (o4_inv_apply_one sc aids D HD); assumption].
  Qed.

  Lemma o4_npend_apply_task g L j : Forall (o4_lok aids pl) L -> forall s,
    (In j (map p_id L) \/ o4_npend s j) -> o4_npend (apply_task sc pl g s L) j.
  Proof.
    unfold apply_task. induction 1 as [|p L Hp _ IH]; intros s H; cbn [fold_left].
    - destruct H as [[]|H]; exact H.
    - apply IH. destruct (o4_apply_one_tv sc aids HD pl g s p j Hp) as [a [u [NA E]]].
      destruct (Nat.eqb (p_id p) j) eqn:EE.
      + right. intros st a' u' X. rewrite E in X. injection X as _ <- _. exact NA.
      + destruct H as [[H|H]|H].
        * apply Nat.eqb_neq in EE. contradiction.
        * left. exact H.
        * right. intros st a' u' X. rewrite E in X. exact (H _ _ _ X).
  Qed.

  Lemma o4_g_prune_task locals g s L : Forall (prune_ok pl) L -> gstep s (prune_task sc pl locals g s L).
  Proof.
    intros F. unfold prune_task. apply o4_gstep_fold. intros s0 p Hp. rewrite Forall_forall in F.
    destruct (F p Hp) as [c [-> Hc]]. apply o4_g_prune_one; [exact HD|]. intros Ha. apply (DISJ _ Ha).
    apply in_map_iff. exists (pobj_of_live c). split; [reflexivity|exact Hc].
  Qed.

  (* a prune task sets the reconcile field of its objects to Pending *)
  Lemma o4_R_prune_one D locals g uids s p : R D s -> R D (prune_one sc pl locals g uids s p).
  Proof.
    intros H. destruct (p_live p) as [c|] eqn:EL.
    - assert (E : prune_one sc pl locals g uids s p = prune_one sc pl locals g uids s (pobj_of_live c))
        by (unfold prune_one; cbn [p_live pobj_of_live]; rewrite EL; reflexivity).
      rewrite E. destruct (prune_one_spec sc pl locals g uids s c) as [a [u [ab [lt [ET _]]]]]. cbv zeta in ET.
      intros i Hi. unfold rc. rewrite ET, rcl_set_status. cbn [r_id r_rec].
      destruct (Nat.eqb (c_id c) i); [discriminate|exact (H i Hi)].
    - unfold prune_one. rewrite EL. exact H.
  Qed.
  Lemma o4_R_prune_task D locals g L : forall s, R D s -> R D (prune_task sc pl locals g s L).
  Proof.
    unfold prune_task. intros s. generalize (applied_uids (r_tbl s)). intros uids. revert s.
    induction L as [|p L IH]; intros s H; cbn [fold_left]; [exact H|]. apply IH. apply o4_R_prune_one. exact H.
  Qed.

  Lemma o4_run_task locals prev D last s t rest :
    o4_cwf D last (t :: rest) -> Inv D s -> R D s -> (forall i, In i last -> o4_npend s i) ->
    (forall i, In i last -> ~ In i D) ->
    let s' := fst (run_task sc pl locals prev s t) in
    let D' := o4_done_of D t in
    Inv D' s' /\ R D' s' /\
    (forall i, In i (o4_last_of t) -> o4_npend s' i) /\
    (forall i, In i (o4_last_of t) -> ~ In i D') /\
    o4_cwf D' (o4_last_of t) rest.
  Proof.
    intros W I HR NP LD. cbv zeta. unfold run_task. cbv zeta.
    assert (I0 : Inv D (ev s (EStarted (task_name t)))) by (apply o4_inv_ev; [exact Logic.I|exact I]).
    assert (R0 : R D (ev s (EStarted (task_name t)))) by (apply (o4_R_same D s); [reflexivity|exact HR]).
    assert (NP0 : forall i, In i last -> o4_npend (ev s (EStarted (task_name t))) i).
    { intros i Hi. apply (o4_tv_same_npend s); [intros j; reflexivity|exact (NP i Hi)]. }
    assert (FIN : forall DD s1, Inv DD s1 -> R DD s1 ->
              Inv DD (ev s1 (EFinished (task_name t))) /\ R DD (ev s1 (EFinished (task_name t)))).
    { intros DD s1 A B. split; [apply o4_inv_ev; [exact Logic.I|exact A]|apply (o4_R_same DD s1); [reflexivity|exact B]]. }
    destruct t as [|k L|k c ids|k L|]; cbn [o4_cwf o4_last_of o4_done_of] in *.
    - pose proof (o4_g_inv_add_task sc aids HD pl (ev s (EStarted (task_name TInvAdd))) PL_local) as T.
      destruct (inv_add_task_spec sc pl (ev s (EStarted (task_name TInvAdd))) PL_local) as [ET _].
      destruct (inv_add_task sc pl _) as [s1 ok]. cbn [fst snd] in *.
      destruct (FIN D s1 (o4_inv_gstep aids D _ _ T I0) (o4_R_same D _ _ ET R0)) as [A B].
      split; [exact A|]. split; [exact B|]. split; [intros i []|]. split; [intros i []|exact W].
    - destruct W as [WL [WD W]]. cbn [fst].
      destruct (o4_inv_apply_task D (task_name (TApply k L)) L WL _ R0 I0) as [A B].
      destruct (FIN D _ A B) as [A' B'].
      split; [exact A'|]. split; [exact B'|]. split; [|split; [exact WD|exact W]].
      intros i Hi. eapply o4_tv_same_npend; [intros j; reflexivity|].
      apply o4_npend_apply_task; [exact WL|left; exact Hi].
    - cbn [fst].
      assert (MONO : incl D (ids ++ D)) by (intros x Hx; apply in_or_app; right; exact Hx).
      assert (ROUT : R (ids ++ D) (wait_task sc c (task_name (TWait k c ids)) ids (ev s (EStarted (task_name (TWait k c ids)))))).
      { intros i Hi. rewrite (wait_task_rc_out sc i c _ ids _); [|intros X; apply Hi; apply in_or_app; left; exact X].
        apply R0. intros X. apply Hi. apply in_or_app. right. exact X. }
      destruct c; destruct W as [WW W].
      + assert (HID : forall i, In i ids -> In i aids -> ~ In i D) by (intros i Hi _; apply LD; apply WW; exact Hi).
        assert (A : Inv D (wait_task sc AllCurrent (task_name (TWait k AllCurrent ids)) ids (ev s (EStarted (task_name (TWait k AllCurrent ids)))))).
        { apply (o4_inv_wait_task sc aids D ids HID). split; [exact I0|]. split; [|intros i []].
          intros i Hi. cbn. apply NP0. apply WW. exact Hi. }
        destruct (FIN (ids ++ D) _ (o4_Inv_mono aids D _ _ MONO A) ROUT) as [A' B'].
        split; [exact A'|]. split; [exact B'|]. split; [intros i []|]. split; [intros i []|exact W].
      + assert (HID : forall i, In i ids -> In i aids -> ~ In i D) by (intros i Hi Ha; exfalso; exact (WW i Hi Ha)).
        assert (A : Inv D (wait_task sc AllNotFound (task_name (TWait k AllNotFound ids)) ids (ev s (EStarted (task_name (TWait k AllNotFound ids)))))).
        { apply (o4_inv_wait_task sc aids D ids HID). split; [exact I0|]. split; [|intros i []].
          intros i Hi. cbn. apply WW. exact Hi. }
        destruct (FIN (ids ++ D) _ (o4_Inv_mono aids D _ _ MONO A) ROUT) as [A' B'].
        split; [exact A'|]. split; [exact B'|]. split; [intros i []|]. split; [intros i []|exact W].
    - destruct W as [WL W]. cbn [fst].
      destruct (FIN D _ (o4_inv_gstep aids D _ _ (o4_g_prune_task locals _ _ L WL) I0)
                  (o4_R_prune_task D locals (task_name (TPrune k L)) L _ R0)) as [A B].
      split; [exact A|]. split; [exact B|]. split; [intros i []|]. split; [intros i []|exact W].
    - pose proof (o4_g_inv_set_task sc aids HD pl prev (ev s (EStarted (task_name TInvSet)))) as T.
      destruct (inv_set_task_spec sc pl prev (ev s (EStarted (task_name TInvSet)))) as [ET _]. cbv zeta in ET.
      destruct (inv_set_task sc pl prev _) as [s1 ok]. cbn [fst snd] in *.
      destruct (FIN D s1 (o4_inv_gstep aids D _ _ T I0) (o4_R_same D _ _ ET R0)) as [A B].
      split; [exact A|]. split; [exact B|]. split; [intros i []|]. split; [intros i []|exact W].
  Qed.

  Lemma o4_run_tasks locals prev ts : forall D last s,
    o4_cwf D last ts -> Inv D s -> R D s -> (forall i, In i last -> o4_npend s i) -> (forall i, In i last -> ~ In i D) ->
    exists D', Inv D' (run_tasks sc pl locals prev s ts).
  Proof.
    induction ts as [|t rest IH]; intros D last s W I HR NP LD; cbn [run_tasks]; [exists D; exact I|].
    destruct (o4_run_task locals prev D last s t rest W I HR NP LD) as [I1 [R1 [N1 [L1 W1]]]]. cbv zeta in *.
    destruct (run_task sc pl locals prev s t) as [s1 ok]. cbn [fst] in *.
    destruct (negb ok); [exists (o4_done_of D t); apply o4_inv_ev; [exact Logic.I|exact I1]|].
    destruct (r_abort s1); [exists (o4_done_of D t); apply o4_inv_ev; [exact Logic.I|exact I1]|].
    exact (IH _ _ s1 W1 I1 R1 N1 L1).
  Qed.

  (* ---- the task list of a plan ----------------------------------------------------------------------- *)
  Lemma o4_cwf_apply_tasks layers : (forall layer p, In layer layers -> In p layer -> o4_lok aids pl p) ->
    forall ka kw rest done, NoDup (map p_id (concat layers)) ->
      (forall i, In i (map p_id (concat layers)) -> ~ In i done) ->
      (forall done', o4_cwf done' [] rest) ->
      o4_cwf done [] (fst (apply_tasks sc ka kw layers) ++ rest).
  Proof.
    induction layers as [|l t IH]; intros H ka kw rest done ND NI HR; cbn [apply_tasks]; [apply HR|].
    assert (Hl : Forall (o4_lok aids pl) l)
      by (apply Forall_forall; intros p Hp; eapply H; [left; reflexivity|exact Hp]).
    assert (Ht : forall layer p, In layer t -> In p layer -> o4_lok aids pl p)
      by (intros; eapply H; [right; eassumption|assumption]).
    cbn [concat] in ND, NI. rewrite map_app in ND, NI. apply NoDup_app_elim in ND. destruct ND as [N1 [N2 DJ]].
    rewrite HD.
    assert (NI' : forall i, In i (map p_id (concat t)) -> ~ In i (map p_id l ++ done)).
    { intros i Hi X. apply in_app_or in X. destruct X as [X|X]; [exact (DJ i X Hi)|].
      apply (NI i); [apply in_or_app; right; exact Hi|exact X]. }
    specialize (IH Ht (S ka) (S kw) rest (map p_id l ++ done) N2 NI' HR).
    destruct (apply_tasks sc (S ka) (S kw) t) as [ts kw']. cbn [fst app o4_cwf] in *.
    split; [exact Hl|]. split; [intros i Hi; apply NI; apply in_or_app; left; exact Hi|].
    split; [apply incl_refl|exact IH].
  Qed.

  Lemma o4_cwf_prune_tasks layers : (forall layer p, In layer layers -> In p layer -> prune_ok pl p) ->
    forall kp kw rest, (forall done', o4_cwf done' [] rest) -> forall done, o4_cwf done [] (prune_tasks sc kp kw layers ++ rest).
  Proof.
    induction layers as [|l t IH]; intros H kp kw rest HR done; cbn [prune_tasks]; [apply HR|].
    assert (Hl : Forall (prune_ok pl) l)
      by (apply Forall_forall; intros p Hp; eapply H; [left; reflexivity|exact Hp]).
    assert (Ht : forall layer p, In layer t -> In p layer -> prune_ok pl p)
      by (intros; eapply H; [right; eassumption|assumption]).
    rewrite HD. cbn [app o4_cwf]. split; [exact Hl|]. split; [|apply IH; assumption].
    intros i Hi Ha. apply (DISJ _ Ha). apply in_map_iff in Hi. destruct Hi as [p [<- Hp]].
    rewrite Forall_forall in Hl. destruct (Hl p Hp) as [c [-> Hc]].
    apply in_map_iff. exists (pobj_of_live c). split; [reflexivity|exact Hc].
  Qed.

  Lemma o4_cwf_tasks_of :
    (forall layer p, In layer (pl_apply_layers pl) -> In p layer -> o4_lok aids pl p) ->
    (forall layer p, In layer (pl_prune_layers pl) -> In p layer -> prune_ok pl p) ->
    NoDup (map p_id (concat (pl_apply_layers pl))) ->
    o4_cwf [] [] (tasks_of sc pl).
  Proof.
    intros LOK POK ND. unfold tasks_of.
    assert (A : forall rest, (forall done', o4_cwf done' [] rest) ->
              o4_cwf [] [] (fst (match pl_apply pl with [] => ([], 0) | _ => apply_tasks sc 0 0 (pl_apply_layers pl) end) ++ rest)).
    { intros rest HR. destruct (pl_apply pl); [apply HR|]. apply o4_cwf_apply_tasks; try assumption. intros i _ []. }
    destruct (match pl_apply pl with [] => ([], 0) | _ => apply_tasks sc 0 0 (pl_apply_layers pl) end) as [at_ kw].
    cbn [fst] in A.
    assert (B : forall done', o4_cwf done' [] ((if o_prune (sc_opts sc) then match pl_prune pl with [] => [] | _ => prune_tasks sc 0 kw (pl_prune_layers pl) end else []) ++ [TInvSet])).
    { intros done'. pose proof (o4_cwf_prune_tasks (pl_prune_layers pl) POK 0 kw [TInvSet] (fun _ => Logic.I) done') as PT.
      destruct (o_prune (sc_opts sc)); [|exact I]. destruct (pl_prune pl); [exact I|exact PT]. }
    destruct (o_destroy (sc_opts sc)); cbn [app o4_cwf]; apply A; exact B.
  Qed.
End Tasks.

(* ---- the run ------------------------------------------------------------------------------------------- *)
Section Run.
  Variable sc : scenario.
  Variable c0 : cluster.
  Hypothesis HWF : WF sc c0.
  Hypothesis HD : is_dry (o_dry (sc_opts sc)) = false.

  Notation pl := (plan_of sc c0).
  Notation aids := (apply_ids (plan_of sc c0)).

  Lemma o4_plan_disj j : In j aids -> ~ In j (map p_id (pl_prune pl)).
  Proof.
    rewrite plan_of_eq. intros Ha Hp.
    apply (bp_disj sc (live_crds sc c0) (locals_of sc) (found_in sc c0 (cand_of sc c0))
             (locals_of_NoDup sc (WF_locals_nodup sc c0 HWF)) (pobjs_NoDup sc c0) (pobjs_disj sc c0) j Ha).
    apply in_map_iff in Hp. destruct Hp as [q [<- Hq]]. apply in_map. apply bp_prune_sub. exact Hq.
  Qed.

  Lemma o4_plan_local p l : In p (pl_apply pl) -> p_local p = Some l -> l_id l = p_id p.
  Proof.
    rewrite plan_of_eq. intros Hp E. destruct (bp_apply_is_local sc _ _ _ p Hp) as [l' [-> _]].
    cbn in E. injection E as <-. reflexivity.
  Qed.

  Lemma o4_plan_cwf : o4_cwf pl [] [] (tasks_of sc pl).
  Proof.
    pose proof (locals_of_NoDup sc (WF_locals_nodup sc c0 HWF)) as NL.
    apply (o4_cwf_tasks_of sc pl HD o4_plan_disj o4_plan_local).
    - rewrite plan_of_eq. intros layer p HL Hp.
      exact (bp_local_ok' sc _ _ _ NL (pobjs_NoDup sc c0) (pobjs_disj sc c0) layer p HL Hp).
    - rewrite plan_of_eq. intros layer p HL Hp. exact (bp_prune_ok sc _ _ _ layer p HL Hp).
    - destruct (plan_layers sc c0 (WF_locals_nodup sc c0 HWF)) as [N _].
      apply NoDup_app_elim in N. exact (proj1 N).
  Qed.

  (* the start state of the task list *)
  (* registration leaves every reconcile field Pending *)
  Lemma o4_R_start s4 : start_ok sc c0 s4 -> o4_R [] s4.
  Proof.
    intros [_ _ _ _ _ [s2 [E2 E4]]] i _. unfold rc. rewrite E4.
    assert (F : forall (l : list pobj) st a s0, (forall j, rcl (r_tbl s0) j <> Some RSucceeded) ->
              forall j, rcl (r_tbl (fold_left (fun s p => rec_add s (p_id p) st a 0%N 0%Z) l s0)) j <> Some RSucceeded).
    { induction l as [|q t IH]; intros st a s0 H j; cbn [fold_left]; [apply H|]. apply IH.
      intros k. cbn [rec_add set_tbl r_tbl]. rewrite rcl_set_status. cbn [r_id r_rec].
      destruct (Nat.eqb (p_id q) k); [discriminate|apply H]. }
    assert (Z : forall j, rcl (r_tbl s2) j <> Some RSucceeded) by (intros j; rewrite E2; discriminate).
    unfold register.
    pose proof (F (pl_apply pl) SApply APending s2 Z) as F1.
    set (s1 := fold_left (fun s p => rec_add s (p_id p) SApply APending 0%N 0%Z) (pl_apply pl) s2) in *.
    assert (F2 : forall j, rcl (r_tbl (if o_prune (sc_opts sc)
                   then fold_left (fun s p => rec_add s (p_id p) SDelete APending 0%N 0%Z) (pl_prune pl) s1 else s1)) j <> Some RSucceeded).
    { destruct (o_prune (sc_opts sc)); [apply F; exact F1|exact F1]. }
    destruct (negb (o_destroy (sc_opts sc)) && negb (o_prune (sc_opts sc))); [apply F; exact F2|apply F2].
  Qed.

  Lemma o4_inv_start s4 : start_ok sc c0 s4 -> o4_Inv aids [] s4.
  Proof.
    intros [SC ST _ _ SK [s2 [E2 E4]]].
    destruct (register_spec sc pl s2 E2) as [_ [_ [_ [_ TV]]]]. cbv zeta in TV.
    assert (TV4 : forall j, tv s4 j = tv (register sc pl s2) j) by (intros j; unfold tv; rewrite E4; reflexivity).
    constructor.
    - unfold o4_V. intros i _. rewrite SK, ST. reflexivity.
    - intros l1 g e l2 E. rewrite ST in E. destruct l1; discriminate E.
    - intros e He. rewrite TV4, TV.
      assert (X : forall q, In e (map p_id q) -> In e (map p_id (pl_prune pl)) -> False)
        by (intros q _ Hp; exact (o4_plan_disj e He Hp)).
      assert (NP : memn e (map p_id (pl_prune pl)) = false).
      { destruct (memn e (map p_id (pl_prune pl))) eqn:M; [|reflexivity]. apply memn_In in M.
        exfalso. exact (o4_plan_disj e He M). }
      assert (NA : memn e (map p_id (pl_prune_all pl)) = false).
      { destruct (memn e (map p_id (pl_prune_all pl))) eqn:M; [|reflexivity]. apply memn_In in M. exfalso.
        revert He M. rewrite plan_of_eq. intros He M.
        exact (bp_disj sc (live_crds sc c0) (locals_of sc) (found_in sc c0 (cand_of sc c0))
                 (locals_of_NoDup sc (WF_locals_nodup sc c0 HWF)) (pobjs_NoDup sc c0) (pobjs_disj sc c0) e He M). }
      rewrite NP, NA, !andb_false_r. rewrite (proj2 (memn_In e aids) He). exists APending, 0%N. reflexivity.
    - intros e st u He E. rewrite TV4, TV in E. exfalso.
      destruct (negb (o_destroy (sc_opts sc)) && negb (o_prune (sc_opts sc)) && memn e (map p_id (pl_prune_all pl))); [discriminate|].
      destruct (o_prune (sc_opts sc) && memn e (map p_id (pl_prune pl))); [discriminate|].
      destruct (memn e aids); discriminate.
    - intros e r L _ EA. exfalso.
      assert (X : tv s4 e = Some (tcore r)) by (unfold tv, tvl, id in *; rewrite L; reflexivity).
      rewrite TV4, TV in X. unfold tcore in X.
      destruct (negb (o_destroy (sc_opts sc)) && negb (o_prune (sc_opts sc)) && memn e (map p_id (pl_prune_all pl)));
        [injection X as _ X2 _; unfold id in *; congruence|].
      destruct (o_prune (sc_opts sc) && memn e (map p_id (pl_prune pl))); [injection X as _ X2 _; unfold id in *; congruence|].
      destruct (memn e aids); [injection X as _ X2 _; unfold id in *; congruence|discriminate].
  Qed.

  Lemma o4_R_pre_tasks s : o4_R [] s -> o4_R [] (pre_tasks sc c0 s).
  Proof.
    intros H. unfold pre_tasks.
    assert (E : r_tbl (ev (fold_left (fun s e => ev s (EValidation (sortn e))) (pl_valerrs pl) s) (init_ev sc c0)) = r_tbl s).
    { cbn [ev emit r_tbl]. generalize (pl_valerrs pl). intros l. revert s H. induction l as [|e t IH]; intros s H; cbn [fold_left]; [reflexivity|].
      rewrite IH; [reflexivity|]. exact H. }
    intros i Hi. unfold rc. rewrite E. exact (H i Hi).
  Qed.

  Lemma o4_inv_pre_tasks s : o4_Inv aids [] s -> o4_Inv aids [] (pre_tasks sc c0 s).
  Proof.
    intros I. unfold pre_tasks. apply (o4_inv_gstep (apply_ids (plan_of sc c0)) [] s); [|exact I].
    eapply o4_gstep_trans; [|apply o4_gstep_ev; exact Logic.I].
    apply o4_gstep_fold. intros s0 e _. apply o4_gstep_ev. exact Logic.I.
  Qed.

  (* every Successful wait event of an object of the apply set in the final run state is justified *)
  Theorem o4_run_state_G : o4_G aids (run_state sc c0).
  Proof.
    assert (ERR : forall s, r_tr s = [] -> o4_G aids (ev s EError)).
    { intros s T l1 g e l2 E. cbn [ev emit r_tr] in E. rewrite T in E.
      destruct l1 as [|x l1]; [discriminate E|]. destruct l1; discriminate E. }
    destruct (run_state_shape sc c0) as [s C T|s C T _ _|s4 SO _ _|s4 prev SO _ _ _].
    - exact (ERR s T).
    - exact (ERR s T).
    - apply (o4_iG aids []). apply o4_inv_gstep with (s := pre_tasks sc c0 s4); [apply o4_gstep_ev; exact I|].
      apply o4_inv_pre_tasks. apply o4_inv_start. exact SO.
    - destruct (o4_run_tasks sc pl HD o4_plan_disj o4_plan_local (locals_of sc) prev (tasks_of sc pl) [] [] (pre_tasks sc c0 s4))
        as [D' ID'];
        [exact o4_plan_cwf|apply o4_inv_pre_tasks; apply o4_inv_start; exact SO
        |apply o4_R_pre_tasks; apply o4_R_start; exact SO|intros i []|intros i []|].
      exact (o4_iG aids D' _ ID').
  Qed.
End Run.
