(* mon_C04_obs (Corr/CorrPipeline.v), part B: the invariant o4_Inv of part A
   through the wait machine (wait_start / deliver / wait_update / wait_timeout),
   through every task, through the task list of the plan, and in the final
   run state.  Everything here is proved; nothing is assumed. *)
From Coq Require Import List Bool Arith NArith ZArith Lia Permutation.
From CliUtils Require Import Model.ObjSet Model.ActuationTable Model.PipelineTypes Model.Pipeline
     Proofs.ObjSetProofs Proofs.ActuationTableProofs Proofs.PipelineBase Proofs.PipelineAuth
     Corr.CorrPipeline Proofs.PipelineOrphansBase Proofs.PipelineOrphansSpec Proofs.PipelineOrphansInv
     Proofs.PipelineOrphansPlan Proofs.PipelineMonBase Proofs.PipelineOrphansRun Proofs.PipelineMonPack
     Proofs.PipelineMonC04obsA.
Import ListNotations.

Lemma o4_remove_In l x j : In j (remove Nat.eqb l x) -> In j l.
Proof.
  intros H. destruct (in_dec Nat.eq_dec x l) as [X|X].
  - pose proof (remove_present nat Nat.eqb nat_eqb_spec l x X) as P.
    eapply Permutation_in; [exact P|right; exact H].
  - rewrite (remove_absent nat Nat.eqb nat_eqb_spec l x X) in H. exact H.
Qed.

(* ---- the wait machine --------------------------------------------------------------------------- *)
Section Wait.
  Variable sc : scenario.
  Variable aids : list id.
  Variable ids : list id.

  Notation Inv := (o4_Inv aids).

  (* what is known of every object of the wait task: AllCurrent - its record is
     not pending (the apply task ran just before); AllNotFound - it is no object
     of the apply set *)
  Definition o4_side (c : wcond) (s : rst) (i : id) : Prop :=
    match c with AllCurrent => o4_npend s i | AllNotFound => ~ In i aids end.
  (* what licenses a wait event of i *)
  Definition o4_jst (c : wcond) (s : rst) (i : id) : Prop :=
    match c with AllCurrent => o4_srec aids s i | AllNotFound => ~ In i aids end.
  Definition o4_WS (c : wcond) (s : rst) (pend : list id) : Prop :=
    Inv s /\ (forall i, In i ids -> o4_side c s i) /\ (forall i, In i pend -> o4_jst c s i).

  Lemma o4_side_tv c s s' i : (forall j, tv s' j = tv s j) -> o4_side c s i -> o4_side c s' i.
  Proof. destruct c; [apply o4_tv_same_npend|intros _ H; exact H]. Qed.
  Lemma o4_jst_tv c s s' i : (forall j, tv s' j = tv s j) -> o4_jst c s i -> o4_jst c s' i.
  Proof. destruct c; [apply o4_tv_same_srec|intros _ H; exact H]. Qed.

  Lemma o4_ws_jst c s pend i : o4_WS c s pend -> In i ids -> w_skipped c s i = false -> o4_jst c s i.
  Proof.
    intros [I [S _]] Hi SK. specialize (S i Hi). destruct c; cbn in *; [|exact S].
    apply o4_nsk; [apply I|exact S|exact SK].
  Qed.

  Lemma o4_ws_wev c s pend pend' g i rc w :
    o4_WS c s pend ->
    (w = WOk -> o4_jst c s i /\ (c = AllCurrent -> changed_uid s i = false /\ cond_met AllCurrent s i = true)) ->
    (forall j, In j pend' -> In j pend \/ (j = i /\ o4_jst c s i)) ->
    o4_WS c (ev (rec_reconcile s i rc) (EWait g i w)) pend'.
  Proof.
    intros [I [S P]] J PP.
    destruct (o4_rec_reconcile_fields s i rc) as [_ [_ [_ EV]]].
    assert (EV' : forall j, tv (ev (rec_reconcile s i rc) (EWait g i w)) j = tv s j) by (intros j; exact (EV j)).
    split; [|split].
    - apply o4_inv_wev; [|exact I]. intros -> Hi. destruct (J eq_refl) as [J1 J2]. destruct c; cbn in J1.
      + destruct (J1 Hi) as [u E]. destruct (J2 eq_refl) as [CU CM]. exact (o4_wok_just aids s i u I Hi E CU CM).
      + contradiction.
    - intros j Hj. eapply o4_side_tv; [exact EV'|exact (S j Hj)].
    - intros j Hj. eapply o4_jst_tv; [exact EV'|]. destruct (PP j Hj) as [H|[-> H]]; [exact (P j H)|exact H].
  Qed.

  Lemma o4_ws_other c s pend pend' g i rc w :
    o4_WS c s pend -> w <> WOk -> o4_jst c s i -> (forall j, In j pend' -> In j pend \/ j = i) ->
    o4_WS c (ev (rec_reconcile s i rc) (EWait g i w)) pend'.
  Proof.
    intros W NW J PP. apply (o4_ws_wev c s pend); [exact W|intros X; contradiction|].
    intros j Hj. destruct (PP j Hj) as [H|H]; [left; exact H|right; split; [exact H|exact J]].
  Qed.

  Lemma o4_ws_wok c s pend pend' g i :
    o4_WS c s pend -> o4_jst c s i -> changed_uid s i = false -> cond_met c s i = true ->
    (forall j, In j pend' -> In j pend \/ j = i) ->
    o4_WS c (ev (rec_reconcile s i RSucceeded) (EWait g i WOk)) pend'.
  Proof.
    intros W J CU CM PP. apply (o4_ws_wev c s pend); [exact W| |].
    - intros _. split; [exact J|]. intros ->. split; assumption.
    - intros j Hj. destruct (PP j Hj) as [H|H]; [left; exact H|right; split; [exact H|exact J]].
  Qed.

  Lemma o4_ws_hcu c s pend pend' g i :
    o4_WS c s pend -> o4_jst c s i -> (forall j, In j pend' -> In j pend \/ j = i) ->
    o4_WS c (handle_changed_uid c g s i) pend'.
  Proof.
    intros W J PP. unfold handle_changed_uid. destruct c.
    - apply (o4_ws_other AllCurrent s pend); [exact W|discriminate|exact J|exact PP].
    - apply (o4_ws_wev AllNotFound s pend); [exact W| |].
      + intros _. split; [exact J|discriminate].
      + intros j Hj. destruct (PP j Hj) as [H|H]; [left; exact H|right; split; [exact H|exact J]].
  Qed.

  Lemma o4_ws_wait_start c g s : o4_WS c s [] ->
    o4_WS c (fst (wait_start c g ids s)) (w_pending (snd (wait_start c g ids s))).
  Proof.
    intros W. unfold wait_start.
    set (stepf := fun (acc : rst * list id) (i : id) => _).
    assert (H : forall l acc, incl l ids -> o4_WS c (fst acc) (snd acc) ->
                  o4_WS c (fst (fold_left stepf l acc)) (snd (fold_left stepf l acc))).
    { induction l as [|i l IH]; intros acc IL WA; cbn [fold_left]; [exact WA|].
      apply IH; [intros x Hx; apply IL; right; exact Hx|].
      assert (Hi : In i ids) by (apply IL; left; reflexivity).
      destruct acc as [s0 pend]. unfold stepf. cbn [fst snd] in *.
      assert (SM : forall j, In j pend -> In j pend \/ j = i) by (intros; left; assumption).
      destruct (w_skipped c s0 i) eqn:SK; cbn [fst snd].
      - apply (o4_ws_wev c s0 pend); [exact WA|discriminate|intros j Hj; left; exact Hj].
      - assert (J : o4_jst c s0 i) by (eapply o4_ws_jst; eassumption).
        destruct (changed_uid s0 i) eqn:CU; cbn [fst snd]; [apply (o4_ws_hcu c s0 pend); assumption|].
        destruct (cond_met c s0 i) eqn:CM; cbn [fst snd]; [apply (o4_ws_wok c s0 pend); assumption|].
        apply (o4_ws_other c s0 pend); [exact WA|discriminate|exact J|].
        intros j Hj. apply in_app_or in Hj. destruct Hj as [Hj|[<-|[]]]; auto. }
    specialize (H ids (s, []) (incl_refl _) W).
    destruct (fold_left stepf ids (s, [])) as [s' pend]. exact H.
  Qed.

  Lemma o4_ws_wait_update c g s w i : o4_WS c s (w_pending w) -> In i ids ->
    o4_WS c (fst (wait_update c g ids s w i)) (w_pending (snd (wait_update c g ids s w i))).
  Proof.
    intros W Hi. unfold wait_update.
    assert (RM : forall j, In j (remove Nat.eqb (w_pending w) i) -> In j (w_pending w) \/ j = i)
      by (intros j H; left; exact (o4_remove_In _ _ _ H)).
    assert (SM : forall j, In j (w_pending w) -> In j (w_pending w) \/ j = i) by (intros; left; assumption).
    assert (AD : forall j, In j (w_pending w ++ [i]) -> In j (w_pending w) \/ j = i)
      by (intros j H; apply in_app_or in H; destruct H as [H|[<-|[]]]; auto).
    destruct (memn i (w_pending w)) eqn:MP.
    - assert (J : o4_jst c s i) by (apply W; apply memn_In; exact MP).
      destruct (changed_uid s i) eqn:CU; cbn [fst snd w_pending]; [apply (o4_ws_hcu c s (w_pending w)); assumption|].
      destruct (cond_met c s i) eqn:CM; cbn [fst snd w_pending]; [apply (o4_ws_wok c s (w_pending w)); assumption|].
      destruct (failed_by_id s i); cbn [fst snd w_pending]; [|exact W].
      apply (o4_ws_other c s (w_pending w)); try assumption; discriminate.
    - destruct (negb (memn i ids)); [exact W|].
      destruct (w_skipped c s i) eqn:SK; [exact W|].
      assert (J : o4_jst c s i) by (eapply o4_ws_jst; eassumption).
      destruct (memn i (w_failed w)).
      + destruct (changed_uid s i) eqn:CU; cbn [fst snd w_pending]; [apply (o4_ws_hcu c s (w_pending w)); assumption|].
        destruct (cond_met c s i) eqn:CM; cbn [fst snd w_pending]; [apply (o4_ws_wok c s (w_pending w)); assumption|].
        destruct (negb (failed_by_id s i)); cbn [fst snd w_pending]; [|exact W].
        apply (o4_ws_other c s (w_pending w)); try assumption; discriminate.
      + destruct (changed_uid s i) eqn:CU.
        * destruct c; [|exact W].
          destruct (is_reconcile Nat.eqb (r_tbl s) i RFailed); [exact W|]. cbn [fst snd].
          apply (o4_ws_hcu AllCurrent s (w_pending w)); assumption.
        * destruct (negb (cond_met c s i)) eqn:CM; cbn [fst snd w_pending].
          { apply (o4_ws_other c s (w_pending w)); try assumption; discriminate. }
          apply negb_false_iff in CM.
          destruct (is_reconcile Nat.eqb (r_tbl s) i RFailed); cbn [fst snd]; [|exact W].
          apply (o4_ws_wok c s (w_pending w)); assumption.
  Qed.

  Lemma o4_ws_deliver c g ds : forall s w, o4_WS c s (w_pending w) ->
    o4_WS c (fst (deliver sc c g ids ds s w)) (w_pending (snd (deliver sc c g ids ds s w))).
  Proof.
    induction ds as [|d t IH]; intros s w W; cbn [deliver]; [exact W|].
    destruct (w_pending w) eqn:EP; [cbn [fst snd]; rewrite EP; exact W|]. rewrite <- EP in *. clear EP.
    set (s2 := if o_status_events (sc_opts sc) then ev (emit s (IDeliv d)) (EStatus (s_id d) (s_st d)) else emit s (IDeliv d)).
    set (s3 := set_cache s2 (d :: r_cache s2)).
    assert (W3 : o4_WS c s3 (w_pending w)).
    { destruct W as [I [S P]].
      assert (TV : forall j, tv s3 j = tv s j) by (intros j; unfold s3, s2; destruct (o_status_events (sc_opts sc)); reflexivity).
      split; [exact (o4_inv_deliv aids (o_status_events (sc_opts sc)) s d I)|].
      split; [intros j Hj; eapply o4_side_tv; [exact TV|exact (S j Hj)]|].
      intros j Hj. eapply o4_jst_tv; [exact TV|exact (P j Hj)]. }
    destruct (memn (s_id d) ids) eqn:M.
    - apply memn_In in M. pose proof (o4_ws_wait_update c g s3 w (s_id d) W3 M) as U.
      destruct (wait_update c g ids s3 w (s_id d)) as [s4 w4]. cbn [fst snd] in U. apply IH. exact U.
    - apply IH. exact W3.
  Qed.

  Lemma o4_inv_set_abort s : Inv s -> Inv (set_abort s).
  Proof.
    apply o4_inv_gstep. apply (o4_gstep_tbl aids s (set_abort s) []); try reflexivity; [apply o4_Cl_refl|constructor|constructor].
  Qed.

  Lemma o4_inv_wait_reset c s : Inv s -> Inv (wait_reset sc c ids s).
  Proof.
    apply o4_inv_gstep. apply (o4_gstep_tbl aids s (wait_reset sc c ids s) []);
      [apply wait_reset_tbl|apply wait_reset_cache|rewrite wait_reset_cl; apply o4_Cl_refl|apply wait_reset_tr|constructor|constructor].
  Qed.

  Lemma o4_inv_wait_timeout g w : forall s, Inv s -> Inv (wait_timeout g s w).
  Proof.
    unfold wait_timeout. induction (w_pending w) as [|i l IH]; intros s I; cbn [fold_left]; [exact I|].
    apply IH. apply o4_inv_wev; [discriminate|exact I].
  Qed.

  Lemma o4_inv_wait_task c g s : o4_WS c s [] -> Inv (wait_task sc c g ids s).
  Proof.
    intros W. unfold wait_task. cbv zeta.
    pose proof (o4_ws_wait_start c g s W) as S1.
    destruct (wait_start c g ids s) as [s1 w1]. cbn [fst snd] in S1.
    destruct (w_pending w1) eqn:EP; [apply o4_inv_wait_reset; apply S1|]. rewrite <- EP in *. clear EP.
    destruct (match e_watch_err_at (sc_env sc) with Some n => Nat.eqb n (snd g) | None => false end);
      [apply o4_inv_set_abort; apply S1|].
    pose proof (o4_ws_deliver c g (w_deliv (nth (snd g) (e_waits (sc_env sc)) (mkW [] WTimeout))) s1 w1 S1) as S2.
    destruct (deliver sc c g ids _ s1 w1) as [s2 w2]. cbn [fst snd] in S2.
    destruct (w_pending w2); [apply o4_inv_wait_reset; apply S2|].
    destruct (w_end _).
    - destruct (match c with AllCurrent => _ | AllNotFound => _ end);
        [apply o4_inv_wait_reset; apply o4_inv_wait_timeout; apply S2|apply o4_inv_set_abort; apply S2].
    - apply o4_inv_set_abort; apply S2.
  Qed.
End Wait.

(* ---- tasks ------------------------------------------------------------------------------------------ *)
Section Tasks.
  Variable sc : scenario.
  Variable pl : plan.
  Hypothesis HD : is_dry (o_dry (sc_opts sc)) = false.

  Notation aids := (apply_ids pl).
  Notation Inv := (o4_Inv (apply_ids pl)).
  Notation gstep := (o4_gstep (apply_ids pl)).

  Hypothesis DISJ : forall j, In j aids -> ~ In j (map p_id (pl_prune pl)).
  Hypothesis PL_local : forall p l, In p (pl_apply pl) -> p_local p = Some l -> l_id l = p_id p.

  (* the shape of a task list the invariant can be carried through; `last` = the
     ids of the apply task that has just run *)
  Fixpoint o4_cwf (last : list id) (ts : list task) : Prop :=
    match ts with
    | [] => True
    | TApply _ L :: r => Forall (o4_lok aids) L /\ o4_cwf (map p_id L) r
    | TWait _ AllCurrent ids :: r => incl ids last /\ o4_cwf [] r
    | TWait _ AllNotFound ids :: r => (forall i, In i ids -> ~ In i aids) /\ o4_cwf [] r
    | TPrune _ L :: r => Forall (prune_ok pl) L /\ o4_cwf [] r
    | _ :: r => o4_cwf [] r
    end.
  Definition o4_last_of (t : task) : list id := match t with TApply _ L => map p_id L | _ => [] end.

  Lemma o4_inv_ev s e : o4_nwok (IEv e) -> Inv s -> Inv (ev s e).
  Proof. intros H. apply o4_inv_gstep. apply o4_gstep_ev. exact H. Qed.

  Lemma o4_inv_apply_task g L : Forall (o4_lok aids) L -> forall s, Inv s -> Inv (apply_task sc pl g s L).
  Proof.
    unfold apply_task. induction 1 as [|p L Hp _ IH]; intros s I; cbn [fold_left]; [exact I|].
    apply IH. apply o4_inv_apply_one; assumption.
  Qed.

  Lemma o4_npend_apply_task g L j : Forall (o4_lok aids) L -> forall s,
    (In j (map p_id L) \/ o4_npend s j) -> o4_npend (apply_task sc pl g s L) j.
  Proof.
    unfold apply_task. induction 1 as [|p L Hp _ IH]; intros s H; cbn [fold_left].
    - destruct H as [[]|H]; exact H.
    - apply IH. destruct (o4_apply_one_tv sc aids HD pl g s p j Hp) as [a [u [NA E]]].
      destruct (Nat.eqb (p_id p) j) eqn:EE.
      + right. intros st a' u' X. rewrite E in X. injection X as _ <- _. exact NA.
      + destruct H as [[H|H]|H].
        * apply Nat.eqb_neq in EE. contradiction.
        * left. exact H.
        * right. intros st a' u' X. rewrite E in X. exact (H _ _ _ X).
  Qed.

  Lemma o4_g_prune_task locals g s L : Forall (prune_ok pl) L -> gstep s (prune_task sc pl locals g s L).
  Proof.
    intros F. unfold prune_task. apply o4_gstep_fold. intros s0 p Hp. rewrite Forall_forall in F.
    destruct (F p Hp) as [c [-> Hc]]. apply o4_g_prune_one; [exact HD|]. intros Ha. apply (DISJ _ Ha).
    apply in_map_iff. exists (pobj_of_live c). split; [reflexivity|exact Hc].
  Qed.

  Lemma o4_run_task locals prev last s t rest :
    o4_cwf last (t :: rest) -> Inv s -> (forall i, In i last -> o4_npend s i) ->
    Inv (fst (run_task sc pl locals prev s t)) /\
    (forall i, In i (o4_last_of t) -> o4_npend (fst (run_task sc pl locals prev s t)) i) /\
    o4_cwf (o4_last_of t) rest.
  Proof.
    intros W I NP. unfold run_task. cbv zeta.
    assert (I0 : Inv (ev s (EStarted (task_name t)))) by (apply o4_inv_ev; [exact Logic.I|exact I]).
    assert (NP0 : forall i, In i last -> o4_npend (ev s (EStarted (task_name t))) i).
    { intros i Hi. apply (o4_tv_same_npend s); [intros j; reflexivity|exact (NP i Hi)]. }
    destruct t as [|k L|k c ids|k L|]; cbn [o4_cwf o4_last_of] in *.
    - pose proof (o4_g_inv_add_task sc aids HD pl (ev s (EStarted (task_name TInvAdd))) PL_local) as T.
      destruct (inv_add_task sc pl _) as [s1 ok]. cbn [fst] in *.
      split; [apply o4_inv_ev; [exact Logic.I|]; exact (o4_inv_gstep aids _ _ T I0)|]. split; [intros i []|exact W].
    - destruct W as [WL W]. cbn [fst].
      split; [apply o4_inv_ev; [exact Logic.I|]; apply o4_inv_apply_task; assumption|]. split; [|exact W].
      intros i Hi. eapply o4_tv_same_npend; [intros j; reflexivity|].
      apply o4_npend_apply_task; [exact WL|left; exact Hi].
    - cbn [fst]. destruct c; destruct W as [WW W].
      + split; [|split; [intros i []|exact W]]. apply o4_inv_ev; [exact Logic.I|]. apply o4_inv_wait_task.
        split; [exact I0|]. split; [|intros i []]. intros i Hi. cbn. apply NP0. apply WW. exact Hi.
      + split; [|split; [intros i []|exact W]]. apply o4_inv_ev; [exact Logic.I|]. apply o4_inv_wait_task.
        split; [exact I0|]. split; [|intros i []]. intros i Hi. cbn. apply WW. exact Hi.
    - destruct W as [WL W]. cbn [fst].
      split; [|split; [intros i []|exact W]]. apply o4_inv_ev; [exact Logic.I|].
      exact (o4_inv_gstep aids _ _ (o4_g_prune_task locals _ _ L WL) I0).
    - pose proof (o4_g_inv_set_task sc aids HD pl prev (ev s (EStarted (task_name TInvSet)))) as T.
      destruct (inv_set_task sc pl prev _) as [s1 ok]. cbn [fst] in *.
      split; [apply o4_inv_ev; [exact Logic.I|]; exact (o4_inv_gstep aids _ _ T I0)|]. split; [intros i []|exact W].
  Qed.

  Lemma o4_run_tasks locals prev ts : forall last s,
    o4_cwf last ts -> Inv s -> (forall i, In i last -> o4_npend s i) ->
    Inv (run_tasks sc pl locals prev s ts).
  Proof.
    induction ts as [|t rest IH]; intros last s W I NP; cbn [run_tasks]; [exact I|].
    destruct (o4_run_task locals prev last s t rest W I NP) as [I1 [N1 W1]].
    destruct (run_task sc pl locals prev s t) as [s1 ok]. cbn [fst] in *.
    destruct (negb ok); [apply o4_inv_ev; [exact Logic.I|exact I1]|].
    destruct (r_abort s1); [apply o4_inv_ev; [exact Logic.I|exact I1]|].
    exact (IH _ s1 W1 I1 N1).
  Qed.

  (* ---- the task list of a plan ----------------------------------------------------------------------- *)
  Lemma o4_cwf_apply_tasks layers : (forall layer p, In layer layers -> In p layer -> o4_lok aids p) ->
    forall ka kw rest, o4_cwf [] rest -> o4_cwf [] (fst (apply_tasks sc ka kw layers) ++ rest).
  Proof.
    induction layers as [|l t IH]; intros H ka kw rest HR; cbn [apply_tasks]; [exact HR|].
    assert (Hl : Forall (o4_lok aids) l)
      by (apply Forall_forall; intros p Hp; eapply H; [left; reflexivity|exact Hp]).
    assert (Ht : forall layer p, In layer t -> In p layer -> o4_lok aids p)
      by (intros; eapply H; [right; eassumption|assumption]).
    rewrite HD. specialize (IH Ht (S ka) (S kw) rest HR).
    destruct (apply_tasks sc (S ka) (S kw) t) as [ts kw']. cbn [fst app o4_cwf] in *.
    split; [exact Hl|]. split; [apply incl_refl|exact IH].
  Qed.

  Lemma o4_cwf_prune_tasks layers : (forall layer p, In layer layers -> In p layer -> prune_ok pl p) ->
    forall kp kw rest, o4_cwf [] rest -> o4_cwf [] (prune_tasks sc kp kw layers ++ rest).
  Proof.
    induction layers as [|l t IH]; intros H kp kw rest HR; cbn [prune_tasks]; [exact HR|].
    assert (Hl : Forall (prune_ok pl) l)
      by (apply Forall_forall; intros p Hp; eapply H; [left; reflexivity|exact Hp]).
    assert (Ht : forall layer p, In layer t -> In p layer -> prune_ok pl p)
      by (intros; eapply H; [right; eassumption|assumption]).
    rewrite HD. cbn [app o4_cwf]. split; [exact Hl|]. split; [|apply IH; assumption].
    intros i Hi Ha. apply (DISJ _ Ha). apply in_map_iff in Hi. destruct Hi as [p [<- Hp]].
    rewrite Forall_forall in Hl. destruct (Hl p Hp) as [c [-> Hc]].
    apply in_map_iff. exists (pobj_of_live c). split; [reflexivity|exact Hc].
  Qed.

  Lemma o4_cwf_tasks_of :
    (forall layer p, In layer (pl_apply_layers pl) -> In p layer -> o4_lok aids p) ->
    (forall layer p, In layer (pl_prune_layers pl) -> In p layer -> prune_ok pl p) ->
    o4_cwf [] (tasks_of sc pl).
  Proof.
    intros LOK POK. unfold tasks_of.
    assert (A : forall rest, o4_cwf [] rest ->
              o4_cwf [] (fst (match pl_apply pl with [] => ([], 0) | _ => apply_tasks sc 0 0 (pl_apply_layers pl) end) ++ rest)).
    { intros rest HR. destruct (pl_apply pl); [exact HR|]. apply o4_cwf_apply_tasks; assumption. }
    destruct (match pl_apply pl with [] => ([], 0) | _ => apply_tasks sc 0 0 (pl_apply_layers pl) end) as [at_ kw].
    cbn [fst] in A.
    assert (B : o4_cwf [] ((if o_prune (sc_opts sc) then match pl_prune pl with [] => [] | _ => prune_tasks sc 0 kw (pl_prune_layers pl) end else []) ++ [TInvSet])).
    { pose proof (o4_cwf_prune_tasks (pl_prune_layers pl) POK 0 kw [TInvSet] Logic.I) as PT.
      destruct (o_prune (sc_opts sc)); [|exact I]. destruct (pl_prune pl); [exact I|exact PT]. }
    destruct (o_destroy (sc_opts sc)); cbn [app o4_cwf]; apply A; exact B.
  Qed.
End Tasks.

(* ---- the run ------------------------------------------------------------------------------------------- *)
Section Run.
  Variable sc : scenario.
  Variable c0 : cluster.
  Hypothesis HWF : WF sc c0.
  Hypothesis HD : is_dry (o_dry (sc_opts sc)) = false.

  Notation pl := (plan_of sc c0).
  Notation aids := (apply_ids (plan_of sc c0)).

  Lemma o4_plan_disj j : In j aids -> ~ In j (map p_id (pl_prune pl)).
  Proof.
    rewrite plan_of_eq. intros Ha Hp.
    apply (bp_disj sc (live_crds sc c0) (locals_of sc) (found_in sc c0 (cand_of sc c0))
             (locals_of_NoDup sc (WF_locals_nodup sc c0 HWF)) (pobjs_NoDup sc c0) (pobjs_disj sc c0) j Ha).
    apply in_map_iff in Hp. destruct Hp as [q [<- Hq]]. apply in_map. apply bp_prune_sub. exact Hq.
  Qed.

  Lemma o4_plan_local p l : In p (pl_apply pl) -> p_local p = Some l -> l_id l = p_id p.
  Proof.
    rewrite plan_of_eq. intros Hp E. destruct (bp_apply_is_local sc _ _ _ p Hp) as [l' [-> _]].
    cbn in E. injection E as <-. reflexivity.
  Qed.

  Lemma o4_plan_cwf : o4_cwf pl [] (tasks_of sc pl).
  Proof.
    apply (o4_cwf_tasks_of sc pl HD o4_plan_disj o4_plan_local).
    - rewrite plan_of_eq. intros layer p HL Hp. exact (bp_local_ok' sc _ _ _ layer p HL Hp).
    - rewrite plan_of_eq. intros layer p HL Hp. exact (bp_prune_ok sc _ _ _ layer p HL Hp).
  Qed.

  (* the start state of the task list *)
  Lemma o4_inv_start s4 : start_ok sc c0 s4 -> o4_Inv aids s4.
  Proof.
    intros [SC ST _ _ SK [s2 [E2 E4]]].
    destruct (register_spec sc pl s2 E2) as [_ [_ [_ [_ TV]]]]. cbv zeta in TV.
    assert (TV4 : forall j, tv s4 j = tv (register sc pl s2) j) by (intros j; unfold tv; rewrite E4; reflexivity).
    constructor.
    - unfold o4_V. rewrite SK, ST. reflexivity.
    - intros l1 g e l2 E. rewrite ST in E. destruct l1; discriminate E.
    - intros e He. rewrite TV4, TV.
      assert (X : forall q, In e (map p_id q) -> In e (map p_id (pl_prune pl)) -> False)
        by (intros q _ Hp; exact (o4_plan_disj e He Hp)).
      assert (NP : memn e (map p_id (pl_prune pl)) = false).
      { destruct (memn e (map p_id (pl_prune pl))) eqn:M; [|reflexivity]. apply memn_In in M.
        exfalso. exact (o4_plan_disj e He M). }
      assert (NA : memn e (map p_id (pl_prune_all pl)) = false).
      { destruct (memn e (map p_id (pl_prune_all pl))) eqn:M; [|reflexivity]. apply memn_In in M. exfalso.
        revert He M. rewrite plan_of_eq. intros He M.
        exact (bp_disj sc (live_crds sc c0) (locals_of sc) (found_in sc c0 (cand_of sc c0))
                 (locals_of_NoDup sc (WF_locals_nodup sc c0 HWF)) (pobjs_NoDup sc c0) (pobjs_disj sc c0) e He M). }
      rewrite NP, NA, !andb_false_r. rewrite (proj2 (memn_In e aids) He). exists APending, 0%N. reflexivity.
    - intros e st u He E. rewrite TV4, TV in E. exfalso.
      destruct (negb (o_destroy (sc_opts sc)) && negb (o_prune (sc_opts sc)) && memn e (map p_id (pl_prune_all pl))); [discriminate|].
      destruct (o_prune (sc_opts sc) && memn e (map p_id (pl_prune pl))); [discriminate|].
      destruct (memn e aids); discriminate.
    - intros e r L _ EA. exfalso.
      assert (X : tv s4 e = Some (tcore r)) by (unfold tv, tvl, id in *; rewrite L; reflexivity).
      rewrite TV4, TV in X. unfold tcore in X.
      destruct (negb (o_destroy (sc_opts sc)) && negb (o_prune (sc_opts sc)) && memn e (map p_id (pl_prune_all pl)));
        [injection X as _ X2 _; unfold id in *; congruence|].
      destruct (o_prune (sc_opts sc) && memn e (map p_id (pl_prune pl))); [injection X as _ X2 _; unfold id in *; congruence|].
      destruct (memn e aids); [injection X as _ X2 _; unfold id in *; congruence|discriminate].
  Qed.

  Lemma o4_inv_pre_tasks s : o4_Inv aids s -> o4_Inv aids (pre_tasks sc c0 s).
  Proof.
    intros I. unfold pre_tasks. apply (o4_inv_gstep (apply_ids (plan_of sc c0)) s); [|exact I].
    eapply o4_gstep_trans; [|apply o4_gstep_ev; exact Logic.I].
    apply o4_gstep_fold. intros s0 e _. apply o4_gstep_ev. exact Logic.I.
  Qed.

  (* every Successful wait event of an object of the apply set in the final run state is justified *)
  Theorem o4_run_state_G : o4_G aids (run_state sc c0).
  Proof.
    assert (ERR : forall s, r_tr s = [] -> o4_G aids (ev s EError)).
    { intros s T l1 g e l2 E. cbn [ev emit r_tr] in E. rewrite T in E.
      destruct l1 as [|x l1]; [discriminate E|]. destruct l1; discriminate E. }
    destruct (run_state_shape sc c0) as [s C T|s C T _ _|s4 SO _ _|s4 prev SO _ _ _].
    - exact (ERR s T).
    - exact (ERR s T).
    - apply (o4_iG aids). apply o4_inv_gstep with (s := pre_tasks sc c0 s4); [apply o4_gstep_ev; exact I|].
      apply o4_inv_pre_tasks. apply o4_inv_start. exact SO.
    - apply (o4_iG aids).
      apply (o4_run_tasks sc pl HD o4_plan_disj o4_plan_local (locals_of sc) prev (tasks_of sc pl) []);
        [exact o4_plan_cwf|apply o4_inv_pre_tasks; apply o4_inv_start; exact SO|intros i []].
  Qed.
End Run.
