(* Proofs about Model/Graph.v: Graph.Sort is a minimal layering of the acyclic
   part, its error names exactly the cyclic closure, the result does not depend
   on the order in which the graph was given. *)
From Coq Require Import List Bool Arith Lia Permutation Sorting.Sorted.
From CliUtils Require Import Model.ObjSet Model.Graph Proofs.ObjSetProofs.
Import ListNotations.

(* ---- specification vocabulary ------------------------------------------- *)
(* reflexive-transitive closure of an edge relation, and its "at least one
   step" variant *)
Inductive reach {V} (E : V -> V -> Prop) : V -> V -> Prop :=
| reach_refl : forall x, reach E x x
| reach_step : forall x y z, E x y -> reach E y z -> reach E x z.

Definition reach_plus {V} (E : V -> V -> Prop) (x z : V) : Prop :=
  exists y, E x y /\ reach E y z.

(* v lies on a cycle or transitively depends on a vertex that does *)
Definition reaches_cycle {V} (E : V -> V -> Prop) (v : V) : Prop :=
  exists u, reach E v u /\ reach_plus E u u.

Lemma reach_mono {V} (E E' : V -> V -> Prop) x z :
  (forall a b, E a b -> E' a b) -> reach E x z -> reach E' x z.
Proof.
  intros H R. induction R as [x|x y z Hxy _ IH]; [constructor|].
  econstructor; [apply H; exact Hxy|exact IH].
Qed.

Lemma reaches_cycle_mono {V} (E E' : V -> V -> Prop) v :
  (forall a b, E a b -> E' a b) -> reaches_cycle E v -> reaches_cycle E' v.
Proof.
  intros H [u [R [y [Huy Ryu]]]]. exists u. split.
  - eapply reach_mono; eauto.
  - exists y. split; [apply H; exact Huy|eapply reach_mono; eauto].
Qed.

Lemma reach_trans {V} (E : V -> V -> Prop) x y z :
  reach E x y -> reach E y z -> reach E x z.
Proof.
  intros R1 R2. induction R1 as [x|x y' z' Hxy _ IH]; [exact R2|].
  econstructor; [exact Hxy|apply IH; exact R2].
Qed.

Lemma NoDup_app_intro {A} (a b : list A) :
  NoDup a -> NoDup b -> (forall x, In x a -> In x b -> False) -> NoDup (a ++ b).
Proof.
  induction a as [|x t IH]; simpl; intros Ha Hb Hd; [exact Hb|].
  inversion Ha as [|? ? Hx Ht]; subst. constructor.
  - rewrite in_app_iff. intros [H|H]; [contradiction|]. apply (Hd x); [left; reflexivity|exact H].
  - apply IH; auto. intros y Hy. apply Hd. right. exact Hy.
Qed.

Lemma NoDup_app_inv {A} (a b : list A) :
  NoDup (a ++ b) -> NoDup a /\ NoDup b /\ (forall x, In x a -> In x b -> False).
Proof.
  induction a as [|x t IH]; simpl; intros H.
  - split; [constructor|split; [exact H|intros x []]].
  - inversion H as [|? ? Hx Ht]; subst. destruct (IH Ht) as [Na [Nb Hd]].
    split; [|split; [exact Nb|]].
    + constructor; [|exact Na]. intros Hi. apply Hx. apply in_app_iff. left. exact Hi.
    + intros y [->|Hy] Hb; [apply Hx; apply in_app_iff; right; exact Hb|eapply Hd; eauto].
Qed.

Section GraphProofs.
  Variable V : Type.
  Variable eqb : V -> V -> bool.
  Hypothesis eqb_spec : forall x y, eqb x y = true <-> x = y.

  Notation gmap := (gmap V).
  Notation mem := (ObjSet.mem eqb).
  Notation has_key := (has_key eqb).
  Notation adj_of := (adj_of eqb).
  Notation add_vertex := (add_vertex eqb).
  Notation add_edge := (add_edge eqb).
  Notation add_edges := (add_edges eqb).
  Notation append_adj := (append_adj eqb).
  Notation remove_vertex := (remove_vertex eqb).
  Notation build := (build eqb).

  Let mem_In := mem_In V eqb eqb_spec.
  Let mem_false := mem_false V eqb eqb_spec.
  Let eqb_refl := ObjSetProofs.eqb_refl V eqb eqb_spec.
  Let eqb_false := ObjSetProofs.eqb_false V eqb eqb_spec.

  Definition keys (g : gmap) : list V := map fst g.
  (* the edge relation a graph value denotes *)
  Definition gedge (g : gmap) (v w : V) : Prop := In w (adj_of g v).

  Definition wf (g : gmap) : Prop :=
    NoDup (keys g)
    /\ (forall v, NoDup (adj_of g v))
    /\ (forall v w, gedge g v w -> In w (keys g)).

  Lemma eq_dec : forall x y : V, {x = y} + {x <> y}.
  Proof.
    intros x y. destruct (eqb x y) eqn:E.
    - left. apply eqb_spec. exact E.
    - right. apply eqb_false. exact E.
  Qed.

  Lemma In_dec' : forall (x : V) l, {In x l} + {~ In x l}.
  Proof. intros x l. apply in_dec. exact eq_dec. Qed.

  (* ---- keys / adj_of ----------------------------------------------------- *)
  Lemma has_key_In g v : has_key g v = true <-> In v (keys g).
  Proof.
    induction g as [|[k a] t IH]; simpl; [split; [discriminate|tauto]|].
    rewrite orb_true_iff, IH, eqb_spec. tauto.
  Qed.

  Lemma has_key_false g v : has_key g v = false <-> ~ In v (keys g).
  Proof. rewrite <- has_key_In. destruct (has_key g v); intuition congruence. Qed.

  Lemma adj_of_absent g v : ~ In v (keys g) -> adj_of g v = [].
  Proof.
    induction g as [|[k a] t IH]; simpl; intros H; [reflexivity|].
    destruct (eqb k v) eqn:E.
    - apply eqb_spec in E. subst. exfalso. apply H. left. reflexivity.
    - apply IH. intros Hv. apply H. right. exact Hv.
  Qed.

  Lemma gedge_src_key g v w : gedge g v w -> In v (keys g).
  Proof.
    unfold gedge. intros H. destruct (In_dec' v (keys g)) as [Hk|Hk]; [exact Hk|].
    rewrite adj_of_absent in H by exact Hk. destruct H.
  Qed.

  Lemma adj_of_app_new g v x : adj_of (g ++ [(v, [])]) x = adj_of g x.
  Proof.
    induction g as [|[k a] t IH]; simpl.
    - destruct (eqb v x); reflexivity.
    - destruct (eqb k x); [reflexivity|exact IH].
  Qed.

  Lemma keys_app g h : keys (g ++ h) = keys g ++ keys h.
  Proof. unfold keys. apply map_app. Qed.

  (* ---- AddVertex --------------------------------------------------------- *)
  Lemma add_vertex_keys g v x : In x (keys (add_vertex g v)) <-> In x (keys g) \/ x = v.
  Proof.
    unfold Graph.add_vertex. destruct (has_key g v) eqn:H.
    - apply has_key_In in H. split; [tauto|]. intros [Hx|Hx]; [exact Hx|subst; exact H].
    - rewrite keys_app, in_app_iff. simpl. intuition.
  Qed.

  Lemma add_vertex_adj g v x : adj_of (add_vertex g v) x = adj_of g x.
  Proof.
    unfold Graph.add_vertex. destruct (has_key g v); [reflexivity|apply adj_of_app_new].
  Qed.

  Lemma add_vertex_wf g v : wf g -> wf (add_vertex g v).
  Proof.
    intros [ND [NA CL]]. split; [|split].
    - unfold Graph.add_vertex. destruct (has_key g v) eqn:H; [exact ND|].
      apply has_key_false in H. rewrite keys_app. simpl.
      apply NoDup_app_intro; auto.
      + constructor; [intros []|constructor].
      + intros x Hx [Hv|[]]. subst. contradiction.
    - intros x. rewrite add_vertex_adj. apply NA.
    - intros x w. unfold gedge. rewrite add_vertex_adj. intros H.
      apply add_vertex_keys. left. apply CL with x. exact H.
  Qed.

  (* ---- append / AddEdge -------------------------------------------------- *)
  Lemma append_adj_keys g f t : keys (append_adj g f t) = keys g.
  Proof.
    induction g as [|[k a] r IH]; simpl; [reflexivity|].
    destruct (eqb k f); simpl; [reflexivity|]. f_equal. exact IH.
  Qed.

  Lemma append_adj_adj g f t x :
    adj_of (append_adj g f t) x =
    if eqb x f && has_key g f then adj_of g f ++ [t] else adj_of g x.
  Proof.
    induction g as [|[k a] r IH]; simpl.
    - rewrite andb_false_r. reflexivity.
    - destruct (eqb k f) eqn:Ekf; simpl.
      + apply eqb_spec in Ekf. subst k. rewrite andb_true_r.
        destruct (eqb f x) eqn:Efx.
        * apply eqb_spec in Efx. subst x. rewrite eqb_refl. reflexivity.
        * destruct (eqb x f) eqn:Exf; [|reflexivity].
          apply eqb_spec in Exf. subst. rewrite eqb_refl in Efx. discriminate.
      + rewrite IH. destruct (eqb k x) eqn:Ekx.
        * apply eqb_spec in Ekx. subst x. rewrite Ekf. reflexivity.
        * reflexivity.
  Qed.

  Lemma add_edge_keys g f t x :
    In x (keys (add_edge g f t)) <-> In x (keys g) \/ x = f \/ x = t.
  Proof.
    unfold Graph.add_edge.
    destruct (is_adjacent eqb (add_vertex (add_vertex g f) t) f t).
    - rewrite !add_vertex_keys. tauto.
    - rewrite append_adj_keys, !add_vertex_keys. tauto.
  Qed.

  Lemma add_edge_gedge g f t v w :
    gedge (add_edge g f t) v w <-> gedge g v w \/ (v = f /\ w = t).
  Proof.
    unfold Graph.add_edge, gedge.
    set (g2 := add_vertex (add_vertex g f) t).
    assert (A2 : forall x, adj_of g2 x = adj_of g x)
      by (intros x; unfold g2; rewrite !add_vertex_adj; reflexivity).
    assert (K2 : has_key g2 f = true).
    { apply has_key_In. unfold g2. rewrite !add_vertex_keys. tauto. }
    unfold Graph.is_adjacent. rewrite K2. simpl.
    destruct (mem t (adj_of g2 f)) eqn:M.
    - apply mem_In in M. rewrite A2 in *. split; [tauto|].
      intros [H|[-> ->]]; [exact H|exact M].
    - rewrite append_adj_adj, K2, andb_true_r.
      destruct (eqb v f) eqn:E.
      + apply eqb_spec in E. subst v. rewrite in_app_iff, !A2. simpl.
        split; [intros [H|[H|[]]]; [tauto|subst; tauto]|].
        intros [H|[_ ->]]; tauto.
      + rewrite A2. apply eqb_false in E. split; [tauto|]. intros [H|[-> _]]; [exact H|contradiction].
  Qed.

  Lemma add_edge_wf g f t : wf g -> wf (add_edge g f t).
  Proof.
    intros W.
    assert (W2 : wf (add_vertex (add_vertex g f) t)) by (apply add_vertex_wf, add_vertex_wf, W).
    split; [|split].
    - unfold Graph.add_edge.
      destruct (is_adjacent eqb (add_vertex (add_vertex g f) t) f t);
        [|unfold keys in *; rewrite append_adj_keys]; apply W2.
    - intros x. unfold Graph.add_edge.
      set (g2 := add_vertex (add_vertex g f) t) in *.
      assert (K2 : has_key g2 f = true).
      { apply has_key_In. unfold g2. rewrite !add_vertex_keys. tauto. }
      unfold Graph.is_adjacent. rewrite K2. simpl.
      destruct (mem t (adj_of g2 f)) eqn:M; [apply W2|].
      rewrite append_adj_adj, K2, andb_true_r.
      destruct (eqb x f); [|apply W2].
      apply mem_false in M. destruct W2 as [_ [NA _]].
      apply NoDup_app_intro; auto.
      + constructor; [intros []|constructor].
      + intros y Hy [Ht|[]]. subst. contradiction.
    - intros v w H. apply add_edge_gedge in H. apply add_edge_keys.
      destruct H as [H|[-> ->]]; [|tauto].
      left. destruct W as [_ [_ CL]]. apply CL with v. exact H.
  Qed.

  (* ---- build ------------------------------------------------------------- *)
  Lemma wf_nil : wf [].
  Proof.
    split; [constructor|split]; [intros v; constructor|intros v w []].
  Qed.

  Lemma add_vertices_wf vs g : wf g -> wf (fold_left add_vertex vs g).
  Proof.
    revert g. induction vs as [|v t IH]; simpl; intros g W; [exact W|].
    apply IH. apply add_vertex_wf. exact W.
  Qed.

  Lemma add_vertices_keys vs g x :
    In x (keys (fold_left add_vertex vs g)) <-> In x (keys g) \/ In x vs.
  Proof.
    revert g. induction vs as [|v t IH]; simpl; intros g; [tauto|].
    rewrite IH, add_vertex_keys. intuition.
  Qed.

  Lemma add_vertices_gedge vs g v w :
    gedge (fold_left add_vertex vs g) v w <-> gedge g v w.
  Proof.
    revert g. induction vs as [|x t IH]; simpl; intros g; [tauto|].
    rewrite IH. unfold gedge. rewrite add_vertex_adj. tauto.
  Qed.

  Lemma add_edges_wf es g : wf g -> wf (add_edges g es).
  Proof.
    unfold Graph.add_edges. revert g. induction es as [|e t IH]; simpl; intros g W; [exact W|].
    apply IH. apply add_edge_wf. exact W.
  Qed.

  Lemma add_edges_keys es g x :
    In x (keys (add_edges g es)) <->
    In x (keys g) \/ exists e, In e es /\ (x = fst e \/ x = snd e).
  Proof.
    unfold Graph.add_edges. revert g. induction es as [|e t IH]; simpl; intros g.
    - split; [tauto|]. intros [H|[e [[] _]]]. exact H.
    - rewrite IH, add_edge_keys. split.
      + intros [[H|H]|[e' [He' H]]]; [tauto| |].
        * right. exists e. tauto.
        * right. exists e'. tauto.
      + intros [H|[e' [[He'|He'] H]]]; [tauto| |].
        * subst e'. tauto.
        * right. exists e'. tauto.
  Qed.

  Lemma add_edges_gedge es g v w :
    gedge (add_edges g es) v w <-> gedge g v w \/ In (v, w) es.
  Proof.
    unfold Graph.add_edges. revert g. induction es as [|[a b] t IH]; simpl; intros g; [tauto|].
    rewrite IH, add_edge_gedge. simpl. split.
    - intros [[H|[-> ->]]|H]; tauto.
    - intros [H|[H|H]]; [tauto| |tauto]. inversion H. subst. tauto.
  Qed.

  Lemma build_wf vs es : wf (build vs es).
  Proof. unfold Graph.build. apply add_edges_wf, add_vertices_wf, wf_nil. Qed.

  Lemma build_keys vs es x :
    In x (keys (build vs es)) <-> In x vs \/ exists e, In e es /\ (x = fst e \/ x = snd e).
  Proof.
    unfold Graph.build. rewrite add_edges_keys, add_vertices_keys. simpl. tauto.
  Qed.

  Lemma build_gedge vs es v w : gedge (build vs es) v w <-> In (v, w) es.
  Proof.
    unfold Graph.build. rewrite add_edges_gedge, add_vertices_gedge. unfold gedge. simpl. tauto.
  Qed.
  (* ---- removeVertex ------------------------------------------------------ *)
  Lemma eqb_sym x y : eqb x y = eqb y x.
  Proof. apply (ObjSetProofs.eqb_sym V eqb eqb_spec). Qed.

  Lemma remove_NoDup l x : NoDup l -> NoDup (ObjSet.remove eqb l x).
  Proof.
    intros ND. destruct (In_dec' x l) as [H|H].
    - pose proof (remove_present V eqb eqb_spec l x H) as P.
      assert (N : NoDup (x :: ObjSet.remove eqb l x))
        by (eapply Permutation_NoDup; [symmetry; exact P|exact ND]).
      inversion N; assumption.
    - rewrite (remove_absent V eqb eqb_spec l x H). exact ND.
  Qed.

  Lemma remove_vertex_keys g r :
    keys (remove_vertex g r) = filter (fun k => negb (eqb k r)) (keys g).
  Proof.
    unfold Graph.remove_vertex, keys.
    induction g as [|[k a] t IH]; simpl; [reflexivity|].
    destruct (eqb k r); simpl; [exact IH|f_equal; exact IH].
  Qed.

  Lemma remove_vertex_adj g r x :
    adj_of (remove_vertex g r) x =
    if eqb x r then [] else ObjSet.remove eqb (adj_of g x) r.
  Proof.
    unfold Graph.remove_vertex.
    induction g as [|[k a] t IH]; simpl.
    - destruct (eqb x r); reflexivity.
    - destruct (eqb k r) eqn:Ekr; simpl.
      + rewrite IH. destruct (eqb x r) eqn:Exr; [reflexivity|].
        apply eqb_spec in Ekr. subst k. rewrite eqb_sym, Exr. reflexivity.
      + destruct (eqb k x) eqn:Ekx.
        * apply eqb_spec in Ekx. subst x. rewrite Ekr. reflexivity.
        * exact IH.
  Qed.

  Lemma remove_vertex_gedge g r v w :
    wf g -> (gedge (remove_vertex g r) v w <-> gedge g v w /\ v <> r /\ w <> r).
  Proof.
    intros [_ [NA _]]. unfold gedge. rewrite remove_vertex_adj.
    destruct (eqb v r) eqn:E.
    - apply eqb_spec in E. subst. simpl. tauto.
    - apply eqb_false in E.
      rewrite (remove_NoDup_In V eqb eqb_spec (adj_of g v) r w (NA v)). tauto.
  Qed.

  Lemma remove_vertex_In_keys g r x :
    In x (keys (remove_vertex g r)) <-> In x (keys g) /\ x <> r.
  Proof.
    rewrite remove_vertex_keys, filter_In, negb_true_iff, eqb_false. tauto.
  Qed.

  Lemma remove_vertex_wf g r : wf g -> wf (remove_vertex g r).
  Proof.
    intros W. pose proof W as [ND [NA CL]]. split; [|split].
    - rewrite remove_vertex_keys. apply (NoDup_filter V). exact ND.
    - intros v. rewrite remove_vertex_adj. destruct (eqb v r); [constructor|].
      apply remove_NoDup, NA.
    - intros v w H. apply remove_vertex_gedge in H; [|exact W].
      apply remove_vertex_In_keys. split; [apply CL with v|]; tauto.
  Qed.

  Lemma remove_all_wf lv g : wf g -> wf (fold_left remove_vertex lv g).
  Proof.
    revert g. induction lv as [|r t IH]; simpl; intros g W; [exact W|].
    apply IH, remove_vertex_wf, W.
  Qed.

  Lemma remove_all_keys lv g x :
    In x (keys (fold_left remove_vertex lv g)) <-> In x (keys g) /\ ~ In x lv.
  Proof.
    revert g. induction lv as [|r t IH]; simpl; intros g; [tauto|].
    rewrite IH, remove_vertex_In_keys. intuition.
  Qed.

  Lemma remove_all_gedge lv g v w :
    wf g ->
    (gedge (fold_left remove_vertex lv g) v w <-> gedge g v w /\ ~ In v lv /\ ~ In w lv).
  Proof.
    revert g. induction lv as [|r t IH]; simpl; intros g W; [tauto|].
    rewrite IH by (apply remove_vertex_wf, W).
    rewrite remove_vertex_gedge by exact W. intuition.
  Qed.

  (* ---- leaves ------------------------------------------------------------ *)
  Lemma leaves_spec g v :
    NoDup (keys g) -> (In v (leaves g) <-> In v (keys g) /\ adj_of g v = []).
  Proof.
    unfold leaves, keys.
    induction g as [|[k a] t IH]; simpl; intros ND; [tauto|].
    inversion ND as [|? ? Hk Ht]; subst. specialize (IH Ht).
    destruct (eqb k v) eqn:E.
    - apply eqb_spec in E. subst v.
      destruct a as [|b a']; simpl.
      + tauto.
      + split.
        * intros H. apply IH in H. destruct H as [H _]. contradiction.
        * intros [_ H]. discriminate.
    - apply eqb_false in E.
      destruct a as [|b a']; simpl; rewrite IH; intuition.
  Qed.

  Lemma NoDup_map_filter {A B} (f : A -> B) (p : A -> bool) l :
    NoDup (map f l) -> NoDup (map f (filter p l)).
  Proof.
    induction l as [|x t IH]; simpl; intros H; [constructor|].
    inversion H as [|? ? Hx Ht]; subst.
    destruct (p x); simpl; [|apply IH; exact Ht].
    constructor; [|apply IH; exact Ht].
    intros Hi. apply Hx. apply in_map_iff in Hi. destruct Hi as [y [Hy Hf]].
    apply filter_In in Hf. apply in_map_iff. exists y. tauto.
  Qed.

  Lemma leaves_NoDup g : NoDup (keys g) -> NoDup (leaves g).
  Proof. unfold leaves, keys. apply NoDup_map_filter. Qed.

  Definition next_graph (g : gmap) : gmap := fold_left remove_vertex (leaves g) g.

  Lemma next_wf g : wf g -> wf (next_graph g).
  Proof. apply remove_all_wf. Qed.

  Lemma next_keys g x : In x (keys (next_graph g)) <-> In x (keys g) /\ ~ In x (leaves g).
  Proof. apply remove_all_keys. Qed.

  Lemma next_gedge g v w :
    wf g -> (gedge (next_graph g) v w <-> gedge g v w /\ ~ In w (leaves g)).
  Proof.
    intros W. unfold next_graph. rewrite remove_all_gedge by exact W.
    split; [tauto|]. intros [H Hw]. split; [exact H|split; [|exact Hw]].
    intros Hv. apply leaves_spec in Hv; [|apply W]. destruct Hv as [_ Hv].
    unfold gedge in H. rewrite Hv in H. destruct H.
  Qed.

  Lemma round_perm g : wf g -> Permutation (leaves g ++ keys (next_graph g)) (keys g).
  Proof.
    intros W. pose proof W as [ND _].
    apply NoDup_Permutation.
    - apply NoDup_app_intro.
      + apply leaves_NoDup, ND.
      + apply next_wf, W.
      + intros x H1 H2. apply next_keys in H2. tauto.
    - exact ND.
    - intros x. rewrite in_app_iff, next_keys, leaves_spec by exact ND.
      destruct (In_dec' x (leaves g)) as [H|H].
      + pose proof H as H'. apply leaves_spec in H'; [|exact ND]. tauto.
      + rewrite leaves_spec in H by exact ND. tauto.
  Qed.

  Lemma round_length g :
    wf g -> List.length (leaves g) + List.length (next_graph g) = List.length g.
  Proof.
    intros W. pose proof (Permutation_length (round_perm g W)) as H.
    rewrite app_length in H. unfold keys in H. rewrite !map_length in H. exact H.
  Qed.

  (* ---- the sort loop as a relation -------------------------------------- *)
  Variable ltb : V -> V -> bool.
  Notation sort_loop := (sort_loop eqb ltb).
  Notation sort := (sort eqb ltb).
  Notation isort := (isort ltb).

  Inductive sorted_as : gmap -> list (list V) -> cyc_err V -> Prop :=
  | sa_nil : sorted_as [] [] None
  | sa_cyc : forall g, g <> [] -> leaves g = [] ->
             sorted_as g [] (Some (isort (keys g), edge_list g))
  | sa_step : forall g L e, g <> [] -> leaves g <> [] ->
              sorted_as (next_graph g) L e -> sorted_as g (leaves g :: L) e.

  Lemma sort_loop_acc f : forall g acc,
    sort_loop f g acc =
    match sort_loop f g [] with Some (L, e) => Some (acc ++ L, e) | None => None end.
  Proof.
    induction f as [|f IH]; intros g acc; destruct g as [|p t]; simpl;
      try (rewrite app_nil_r; reflexivity); try reflexivity.
    destruct (leaves (p :: t)) as [|l0 lv] eqn:EL.
    - rewrite app_nil_r. reflexivity.
    - rewrite (IH _ (acc ++ [l0 :: lv])), (IH _ [l0 :: lv]).
      destruct (Graph.sort_loop eqb ltb f _ []) as [[L e]|]; [|reflexivity].
      rewrite <- app_assoc. reflexivity.
  Qed.

  Lemma sort_loop_sorted_as f : forall g L e,
    sort_loop f g [] = Some (L, e) -> sorted_as g L e.
  Proof.
    induction f as [|f IH]; intros g L e H; destruct g as [|p t]; simpl in H;
      try discriminate; try (inversion H; subst; constructor).
    destruct (leaves (p :: t)) as [|l0 lv] eqn:EL.
    - inversion H; subst. apply sa_cyc; [discriminate|exact EL].
    - rewrite sort_loop_acc in H.
      destruct (Graph.sort_loop eqb ltb f _ []) as [[L' e']|] eqn:ES; [|discriminate].
      inversion H; subst. simpl. rewrite <- EL.
      apply sa_step; [discriminate|rewrite EL; discriminate|].
      apply IH. unfold next_graph. rewrite EL. exact ES.
  Qed.

  Lemma sort_loop_total f : forall g,
    wf g -> List.length g <= f -> exists L e, sort_loop f g [] = Some (L, e).
  Proof.
    induction f as [|f IH]; intros g W Hl; destruct g as [|p t]; simpl in *;
      try (eexists; eexists; reflexivity); try lia.
    destruct (leaves (p :: t)) as [|l0 lv] eqn:EL; [eexists; eexists; reflexivity|].
    rewrite sort_loop_acc.
    pose proof (round_length (p :: t) W) as RL. rewrite EL in RL. simpl in RL.
    destruct (IH (next_graph (p :: t))) as [L [e HS]].
    - apply next_wf, W.
    - lia.
    - unfold next_graph in HS. rewrite EL in HS. rewrite HS. eexists; eexists; reflexivity.
  Qed.

  Lemma sort_total g : wf g -> exists L e, sort g = Some (L, e).
  Proof. intros W. apply sort_loop_total; [exact W|lia]. Qed.

  Lemma sort_sorted_as g L e : sort g = Some (L, e) -> sorted_as g L e.
  Proof. apply sort_loop_sorted_as. Qed.

  (* the ids named by the error ([] when there is none) *)
  Definition err_ids (e : cyc_err V) : list V :=
    match e with Some (ids, _) => ids | None => [] end.
  (* ---- insertion sort ---------------------------------------------------- *)
  Lemma insert_perm x l : Permutation (insert ltb x l) (x :: l).
  Proof.
    induction l as [|h t IH]; simpl; [reflexivity|].
    destruct (ltb x h); [reflexivity|].
    etransitivity; [apply perm_skip; exact IH|apply perm_swap].
  Qed.

  Lemma isort_perm l : Permutation (isort l) l.
  Proof.
    induction l as [|h t IH]; simpl; [reflexivity|].
    etransitivity; [apply insert_perm|apply perm_skip; exact IH].
  Qed.

  Lemma isort_In l x : In x (isort l) <-> In x l.
  Proof.
    split; apply Permutation_in; [apply isort_perm|symmetry; apply isort_perm].
  Qed.

  (* ---- partition --------------------------------------------------------- *)
  Lemma sa_partition g L e :
    wf g -> sorted_as g L e ->
    Permutation (concat L ++ err_ids e) (keys g) /\ Forall (fun l => l <> []) L.
  Proof.
    intros W H. induction H as [|g Hne Hlv|g L e Hne Hlv H IH].
    - simpl. split; constructor.
    - simpl. split; [apply isort_perm|constructor].
    - destruct (IH (next_wf g W)) as [P F]. split.
      + simpl. rewrite <- app_assoc.
        etransitivity; [apply Permutation_app_head; exact P|apply round_perm; exact W].
      + constructor; assumption.
  Qed.

  Lemma nth_In_concat {A} (L : list (list A)) i v : In v (nth i L []) -> In v (concat L).
  Proof.
    revert i. induction L as [|l t IH]; intros i H; destruct i; simpl in *;
      try contradiction; apply in_app_iff; [left; exact H|right; eapply IH; exact H].
  Qed.

  Lemma sa_member_key g L e i v :
    wf g -> sorted_as g L e -> In v (nth i L []) -> In v (keys g).
  Proof.
    intros W H Hv. destruct (sa_partition g L e W H) as [P _].
    eapply Permutation_in; [exact P|]. apply in_app_iff. left. eapply nth_In_concat. exact Hv.
  Qed.

  Lemma sa_err_key g L e v :
    wf g -> sorted_as g L e -> In v (err_ids e) -> In v (keys g).
  Proof.
    intros W H Hv. destruct (sa_partition g L e W H) as [P _].
    eapply Permutation_in; [exact P|]. apply in_app_iff. right. exact Hv.
  Qed.

  (* ---- every dependency lies in a strictly earlier layer ----------------- *)
  Lemma sa_order g L e :
    wf g -> sorted_as g L e ->
    forall i v w, In v (nth i L []) -> gedge g v w -> exists j, j < i /\ In w (nth j L []).
  Proof.
    intros W H. induction H as [|g Hne Hlv|g L e Hne Hlv H IH]; intros i v w Hv Hvw.
    - destruct i; destruct Hv.
    - destruct i; destruct Hv.
    - destruct i as [|i]; simpl in Hv.
      + apply leaves_spec in Hv; [|apply W]. destruct Hv as [_ Hv].
        unfold gedge in Hvw. rewrite Hv in Hvw. destruct Hvw.
      + destruct (In_dec' w (leaves g)) as [Hw|Hw].
        * exists 0. split; [lia|exact Hw].
        * destruct (IH (next_wf g W) i v w Hv) as [j [Hj Hwj]].
          -- apply next_gedge; [exact W|]. split; assumption.
          -- exists (S j). split; [lia|exact Hwj].
  Qed.

  (* ---- earliest layer: a dependency in the layer just before ------------- *)
  Lemma sa_minimal g L e :
    wf g -> sorted_as g L e ->
    forall i v, In v (nth (S i) L []) -> exists w, gedge g v w /\ In w (nth i L []).
  Proof.
    intros W H. induction H as [|g Hne Hlv|g L e Hne Hlv H IH]; intros i v Hv.
    - destruct Hv.
    - destruct Hv.
    - simpl in Hv. destruct i as [|i].
      + assert (Hv' : In v (leaves (next_graph g))).
        { inversion H; subst; simpl in Hv; try contradiction. exact Hv. }
        apply leaves_spec in Hv'; [|apply next_wf, W]. destruct Hv' as [Hk Ha].
        apply next_keys in Hk. destruct Hk as [Hk Hnl].
        destruct (adj_of g v) as [|w r] eqn:EA.
        * exfalso. apply Hnl. apply leaves_spec; [apply W|]. split; assumption.
        * exists w. assert (Hvw : gedge g v w) by (unfold gedge; rewrite EA; left; reflexivity).
          split; [exact Hvw|]. simpl.
          destruct (In_dec' w (leaves g)) as [Hw|Hw]; [exact Hw|].
          exfalso. assert (Hn : gedge (next_graph g) v w) by (apply next_gedge; [exact W|split; assumption]).
          unfold gedge in Hn. rewrite Ha in Hn. destruct Hn.
      + destruct (IH (next_wf g W) i v Hv) as [w [Hvw Hw]].
        exists w. split; [|exact Hw]. apply next_gedge in Hvw; [|exact W]. tauto.
  Qed.

  (* ---- cycles ------------------------------------------------------------ *)
  Lemma rc_has_succ (E : V -> V -> Prop) v : reaches_cycle E v -> exists y, E v y.
  Proof.
    intros [u [R [y [Huy _]]]]. destruct R as [x|x y' z Hxy _]; eauto.
  Qed.

  Lemma reach_has_succ (E : V -> V -> Prop) x u :
    reach E x u -> (exists c, E u c) -> exists c, E x c.
  Proof. intros R Hu. destruct R as [x|x y z Hxy _]; eauto. Qed.

  Lemma reach_transfer (E E' : V -> V -> Prop) x u :
    (forall a b, E a b -> (exists c, E b c) -> E' a b) ->
    reach E x u -> (exists c, E u c) -> reach E' x u.
  Proof.
    intros T R Hu. induction R as [x|x y z Hxy R IH]; [constructor|].
    econstructor; [|apply IH; exact Hu].
    apply T; [exact Hxy|]. eapply reach_has_succ; eauto.
  Qed.

  Lemma rc_transfer (E E' : V -> V -> Prop) v :
    (forall a b, E a b -> (exists c, E b c) -> E' a b) ->
    reaches_cycle E v -> reaches_cycle E' v.
  Proof.
    intros T [u [R [y [Huy Ryu]]]].
    assert (Hu : exists c, E u c) by eauto.
    exists u. split; [eapply reach_transfer; eauto|].
    exists y. split.
    - apply T; [exact Huy|]. eapply reach_has_succ; eauto.
    - eapply reach_transfer; eauto.
  Qed.

  Lemma sa_cycles_complete g L e :
    wf g -> sorted_as g L e ->
    forall v, reaches_cycle (gedge g) v -> In v (err_ids e).
  Proof.
    intros W H. induction H as [|g Hne Hlv|g L e Hne Hlv H IH]; intros v Hv.
    - apply rc_has_succ in Hv. destruct Hv as [y []].
    - simpl. apply isort_In. apply rc_has_succ in Hv. destruct Hv as [y Hy].
      eapply gedge_src_key. exact Hy.
    - apply (IH (next_wf g W)). eapply rc_transfer; [|exact Hv].
      intros a b Hab [c Hbc]. apply next_gedge; [exact W|]. split; [exact Hab|].
      intros Hb. apply leaves_spec in Hb; [|apply W]. destruct Hb as [_ Hb].
      unfold gedge in Hbc. rewrite Hb in Hbc. destruct Hbc.
  Qed.

  (* pigeonhole: a list is duplicate free or splits around a repeated element *)
  Lemma dup_or_nodup (l : list V) :
    NoDup l \/ exists a l1 l2 l3, l = l1 ++ a :: l2 ++ a :: l3.
  Proof.
    induction l as [|x t IH]; [left; constructor|].
    destruct IH as [ND|[a [l1 [l2 [l3 E]]]]].
    - destruct (In_dec' x t) as [Hx|Hx].
      + right. apply in_split in Hx. destruct Hx as [l2 [l3 E]].
        exists x, [], l2, l3. simpl. rewrite E. reflexivity.
      + left. constructor; assumption.
    - right. exists a, (x :: l1), l2, l3. simpl. rewrite E. reflexivity.
  Qed.

  Fixpoint chain (E : V -> V -> Prop) (p : list V) : Prop :=
    match p with
    | x :: ((y :: _) as t) => E x y /\ chain E t
    | _ => True
    end.

  Lemma chain_reach (E : V -> V -> Prop) a r : forall l1 x,
    chain E (x :: l1 ++ a :: r) -> reach E x a.
  Proof.
    induction l1 as [|y l1 IH]; intros x H.
    - simpl in H. destruct H as [H _]. econstructor; [exact H|constructor].
    - simpl in H. destruct H as [H1 H2]. econstructor; [exact H1|]. apply IH. exact H2.
  Qed.

  Lemma chain_suffix (E : V -> V -> Prop) l2 : forall l1, chain E (l1 ++ l2) -> chain E l2.
  Proof.
    induction l1 as [|x t IH]; intros H; [exact H|].
    apply IH. simpl in H. destruct (t ++ l2) as [|y r]; [exact I|]. destruct H as [_ H]. exact H.
  Qed.

  Definition nxt (g : gmap) (x : V) : V := hd x (adj_of g x).
  Fixpoint walk (g : gmap) (n : nat) (x : V) : list V :=
    match n with O => [x] | S k => x :: walk g k (nxt g x) end.

  Lemma walk_props g :
    wf g -> (forall x, In x (keys g) -> adj_of g x <> []) ->
    forall n x, In x (keys g) ->
      chain (gedge g) (walk g n x) /\ incl (walk g n x) (keys g)
      /\ List.length (walk g n x) = S n /\ exists t, walk g n x = x :: t.
  Proof.
    intros W NL. induction n as [|n IH]; intros x Hx.
    - simpl. split; [exact I|split; [|split; [reflexivity|exists []; reflexivity]]].
      intros y [->|[]]. exact Hx.
    - assert (Hn : gedge g x (nxt g x)).
      { unfold gedge, nxt. specialize (NL x Hx). destruct (adj_of g x); [contradiction|left; reflexivity]. }
      assert (Hk : In (nxt g x) (keys g)) by (destruct W as [_ [_ CL]]; eapply CL; exact Hn).
      destruct (IH (nxt g x) Hk) as [C [I' [Len [t Et]]]].
      simpl. split; [|split; [|split; [simpl; rewrite Len; reflexivity|eexists; reflexivity]]].
      + rewrite Et in *. split; [exact Hn|exact C].
      + intros y [->|Hy]; [exact Hx|apply I'; exact Hy].
  Qed.

  Lemma all_succ_cycle g :
    wf g -> (forall x, In x (keys g) -> adj_of g x <> []) ->
    forall v, In v (keys g) -> reaches_cycle (gedge g) v.
  Proof.
    intros W NL v Hv.
    destruct (walk_props g W NL (List.length (keys g)) v Hv) as [C [Inc [Len [t Et]]]].
    destruct (dup_or_nodup (walk g (List.length (keys g)) v)) as [ND|[a [l1 [l2 [l3 E]]]]].
    - pose proof (NoDup_incl_length ND Inc) as H. lia.
    - rewrite E in C. exists a. split.
      + destruct l1 as [|x l1].
        * simpl in E. rewrite Et in E. inversion E. constructor.
        * simpl in E. rewrite Et in E. inversion E. subst x.
          apply chain_reach with (r := l2 ++ a :: l3) (l1 := l1). exact C.
      + apply chain_suffix in C. destruct l2 as [|y l2].
        * simpl in C. destruct C as [C _]. exists a. split; [exact C|constructor].
        * simpl in C. destruct C as [C1 C2]. exists y. split; [exact C1|].
          apply chain_reach with (r := l3) (l1 := l2). exact C2.
  Qed.

  Lemma sa_cycles_sound g L e :
    wf g -> sorted_as g L e ->
    forall v, In v (err_ids e) -> reaches_cycle (gedge g) v.
  Proof.
    intros W H. induction H as [|g Hne Hlv|g L e Hne Hlv H IH]; intros v Hv.
    - destruct Hv.
    - simpl in Hv. apply (proj1 (isort_In _ _)) in Hv. apply all_succ_cycle; [exact W| |exact Hv].
      intros x Hx Ha.
      assert (Hl : In x (leaves g)) by (apply leaves_spec; [apply W|split; assumption]).
      rewrite Hlv in Hl. destruct Hl.
    - eapply reaches_cycle_mono; [|apply (IH (next_wf g W)); exact Hv].
      intros a b Hab. apply next_gedge in Hab; [|exact W]. tauto.
  Qed.

  Lemma sa_cycles g L e :
    wf g -> sorted_as g L e ->
    forall v, In v (err_ids e) <-> reaches_cycle (gedge g) v.
  Proof.
    intros W H v. split; [apply sa_cycles_sound with L|apply sa_cycles_complete with L]; assumption.
  Qed.

  (* the error is present exactly when something is left over *)
  Lemma sa_err_nonempty g L e : sorted_as g L e -> e <> None -> err_ids e <> [].
  Proof.
    intros H. induction H as [|g Hne Hlv|g L e Hne Hlv H IH]; intros He.
    - contradiction.
    - simpl. destruct g as [|[k a] t]; [contradiction|]. intros E.
      assert (Hk : In k (isort (keys ((k, a) :: t)))) by (apply isort_In; left; reflexivity).
      rewrite E in Hk. destruct Hk.
    - apply IH. exact He.
  Qed.
  (* ---- the order on vertices --------------------------------------------- *)
  Hypothesis ltb_irrefl : forall x, ltb x x = false.
  Hypothesis ltb_trans : forall x y z, ltb x y = true -> ltb y z = true -> ltb x z = true.
  Hypothesis ltb_total : forall x y, x <> y -> ltb x y = true \/ ltb y x = true.

  Definition lt (a b : V) : Prop := ltb a b = true.

  Lemma insert_sorted x l :
    StronglySorted lt l -> ~ In x l -> StronglySorted lt (insert ltb x l).
  Proof.
    induction l as [|h t IH]; simpl; intros S Hx.
    - constructor; constructor.
    - inversion S as [|? ? St Fh]; subst.
      destruct (ltb x h) eqn:E.
      + constructor; [exact S|]. constructor; [exact E|].
        rewrite Forall_forall in *. intros y Hy. eapply ltb_trans; [exact E|apply Fh; exact Hy].
      + constructor.
        * apply IH; [exact St|]. intros H. apply Hx. right. exact H.
        * rewrite Forall_forall in *. intros y Hy.
          apply (Permutation_in _ (insert_perm x t)) in Hy. destruct Hy as [<-|Hy]; [|apply Fh; exact Hy].
          destruct (ltb_total x h) as [H|H]; [|congruence|exact H].
          intros ->. apply Hx. left. reflexivity.
  Qed.

  Lemma isort_sorted l : NoDup l -> StronglySorted lt (isort l).
  Proof.
    induction l as [|h t IH]; simpl; intros ND; [constructor|].
    inversion ND as [|? ? Hh Ht]; subst.
    apply insert_sorted; [apply IH; exact Ht|]. rewrite isort_In. exact Hh.
  Qed.

  Lemma sorted_unique l1 : forall l2,
    StronglySorted lt l1 -> StronglySorted lt l2 ->
    (forall x, In x l1 <-> In x l2) -> l1 = l2.
  Proof.
    induction l1 as [|a t1 IH]; intros l2 S1 S2 H.
    - destruct l2 as [|b t2]; [reflexivity|]. exfalso. apply (H b). left. reflexivity.
    - destruct l2 as [|b t2]; [exfalso; apply (H a); left; reflexivity|].
      inversion S1 as [|? ? S1' F1]; inversion S2 as [|? ? S2' F2]; subst.
      rewrite Forall_forall in F1, F2.
      assert (Eab : a = b).
      { destruct (proj1 (H a) (or_introl eq_refl)) as [E|Ha]; [symmetry; exact E|].
        destruct (proj2 (H b) (or_introl eq_refl)) as [E|Hb]; [exact E|].
        exfalso. pose proof (ltb_trans _ _ _ (F1 b Hb) (F2 a Ha)) as C.
        rewrite ltb_irrefl in C. discriminate. }
      subst b. f_equal. apply IH; [exact S1'|exact S2'|].
      intros x. split; intros Hx.
      + destruct (proj1 (H x) (or_intror Hx)) as [E|Hx']; [|exact Hx'].
        subst x. pose proof (F1 a Hx) as C. unfold lt in C. rewrite ltb_irrefl in C. discriminate.
      + destruct (proj2 (H x) (or_intror Hx)) as [E|Hx']; [|exact Hx'].
        subst x. pose proof (F2 a Hx) as C. unfold lt in C. rewrite ltb_irrefl in C. discriminate.
  Qed.

  Definition set_eq (a b : list V) : Prop := forall x, In x a <-> In x b.

  Lemma isort_set_eq l1 l2 : NoDup l1 -> NoDup l2 -> set_eq l1 l2 -> isort l1 = isort l2.
  Proof.
    intros N1 N2 H. apply sorted_unique; try (apply isort_sorted; assumption).
    intros x. rewrite !isort_In. apply H.
  Qed.

  (* ---- the result depends only on the vertex set and the edge relation --- *)
  Definition geq (g g' : gmap) : Prop :=
    set_eq (keys g) (keys g') /\ (forall v w, gedge g v w <-> gedge g' v w).

  Lemma geq_sym g g' : geq g g' -> geq g' g.
  Proof. intros [H1 H2]. split; [intros x; symmetry; apply H1|intros v w; symmetry; apply H2]. Qed.

  Lemma adj_nil_iff g v : adj_of g v = [] <-> forall w, ~ gedge g v w.
  Proof.
    unfold gedge. split.
    - intros -> w [].
    - intros H. destruct (adj_of g v) as [|w r]; [reflexivity|]. exfalso. apply (H w). left. reflexivity.
  Qed.

  Lemma geq_leaves g g' : wf g -> wf g' -> geq g g' -> set_eq (leaves g) (leaves g').
  Proof.
    intros W W' [HK HE] x. rewrite !leaves_spec by (apply W || apply W').
    rewrite !adj_nil_iff, (HK x). split; intros [H1 H2]; (split; [exact H1|]);
      intros w Hw; apply (H2 w); apply HE; exact Hw.
  Qed.

  Lemma geq_next g g' : wf g -> wf g' -> geq g g' -> geq (next_graph g) (next_graph g').
  Proof.
    intros W W' G. pose proof (geq_leaves g g' W W' G) as HL. destruct G as [HK HE]. split.
    - intros x. rewrite !next_keys, (HK x), (HL x). tauto.
    - intros v w. rewrite !next_gedge by assumption. rewrite (HE v w), (HL w). tauto.
  Qed.

  Lemma geq_nil g : geq [] g -> g = [].
  Proof.
    intros [HK _]. destruct g as [|[k a] t]; [reflexivity|].
    exfalso. apply (HK k). left. reflexivity.
  Qed.

  Lemma set_eq_nil l : set_eq [] l -> l = [].
  Proof. intros H. destruct l as [|x t]; [reflexivity|]. exfalso. apply (H x). left. reflexivity. Qed.

  Lemma sa_geq g L e :
    sorted_as g L e -> forall g' L' e', wf g -> wf g' -> geq g g' -> sorted_as g' L' e' ->
    Forall2 set_eq L L' /\ option_map fst e = option_map fst e'.
  Proof.
    intros H. induction H as [|g Hne Hlv|g L e Hne Hlv H IH]; intros g' L' e' W W' G H'.
    - apply geq_nil in G. subst g'. inversion H'; subst; try contradiction. split; constructor.
    - pose proof (geq_leaves g g' W W' G) as HL. rewrite Hlv in HL.
      apply set_eq_nil in HL. inversion H'; subst.
      + apply geq_sym, geq_nil in G. contradiction.
      + split; [constructor|]. simpl. f_equal.
        apply isort_set_eq; [apply W|apply W'|apply G].
      + contradiction.
    - pose proof (geq_leaves g g' W W' G) as HL. inversion H'; subst.
      + apply geq_sym, geq_nil in G. contradiction.
      + exfalso. apply Hlv. match goal with E : leaves g' = [] |- _ => rewrite E in HL end.
        apply set_eq_nil. intros x. symmetry. apply HL.
      + match goal with H2 : sorted_as (next_graph g') _ _ |- _ =>
          destruct (IH _ _ _ (next_wf g W) (next_wf g' W') (geq_next g g' W W' G) H2) as [F E] end.
        split; [constructor; assumption|exact E].
  Qed.

  Lemma sa_layers_NoDup g L e : wf g -> sorted_as g L e -> Forall (@NoDup V) L.
  Proof.
    intros W H. induction H as [|g Hne Hlv|g L e Hne Hlv H IH]; try constructor.
    - apply leaves_NoDup, W.
    - apply IH, next_wf, W.
  Qed.

  Lemma sa_err_sorted g L e : wf g -> sorted_as g L e -> StronglySorted lt (err_ids e).
  Proof.
    intros W H. induction H as [|g Hne Hlv|g L e Hne Hlv H IH]; simpl.
    - constructor.
    - apply isort_sorted, W.
    - apply IH, next_wf, W.
  Qed.

  Lemma map_isort_eq L L' :
    Forall2 set_eq L L' -> Forall (@NoDup V) L -> Forall (@NoDup V) L' ->
    map isort L = map isort L'.
  Proof.
    intros F. induction F as [|a b L L' Hab F IH]; intros N N'; [reflexivity|].
    inversion N; inversion N'; subst. simpl. f_equal; [apply isort_set_eq; assumption|apply IH; assumption].
  Qed.

  (* ---- HydrateSetList / ReverseSetList ---------------------------------- *)
  Notation hydrate := (hydrate eqb ltb).

  Lemma hydrate_eq L L' ids ids' :
    Forall2 set_eq L L' -> Forall (@NoDup V) L -> Forall (@NoDup V) L' -> set_eq ids ids' ->
    hydrate L ids = hydrate L' ids'.
  Proof.
    intros F. induction F as [|a b L L' Hab F IH]; intros N N' HI; [reflexivity|].
    inversion N; inversion N'; subst. unfold Graph.hydrate in *. simpl.
    rewrite (IH ltac:(assumption) ltac:(assumption) HI). f_equal.
    assert (SE : set_eq (filter (fun v => mem v ids) a) (filter (fun v => mem v ids') b)).
    { intros x. rewrite !filter_In, !mem_In, (Hab x), (HI x). tauto. }
    assert (EQ : isort (filter (fun v => mem v ids) a) = isort (filter (fun v => mem v ids') b)).
    { apply isort_set_eq; [apply (NoDup_filter V); assumption|apply (NoDup_filter V); assumption|exact SE]. }
    destruct (filter (fun v => mem v ids) a) as [|x r];
      destruct (filter (fun v => mem v ids') b) as [|y r']; simpl.
    - reflexivity.
    - apply set_eq_nil in SE. discriminate.
    - exfalso. apply (SE x). left. reflexivity.
    - f_equal. exact EQ.
  Qed.

  Lemma hydrate_all L ids :
    Forall (fun l => l <> [] /\ forall x, In x l -> In x ids) L -> hydrate L ids = map isort L.
  Proof.
    intros F. induction F as [|l L [Hne Hin] F IH]; [reflexivity|].
    unfold Graph.hydrate in *. simpl. rewrite IH.
    rewrite (filter_id V) by (intros x Hx; apply mem_In, Hin, Hx).
    destruct l; [contradiction|reflexivity].
  Qed.

  Lemma hydrate_sorted L ids :
    Forall (@NoDup V) L -> Forall (StronglySorted lt) (hydrate L ids).
  Proof.
    intros N. induction N as [|l L Hl N IH]; [constructor|].
    unfold Graph.hydrate in *. simpl. apply Forall_app. split; [|exact IH].
    assert (S : StronglySorted lt (isort (filter (fun v => mem v ids) l)))
      by (apply isort_sorted, (NoDup_filter V), Hl).
    destruct (filter (fun v => mem v ids) l) as [|x r]; [constructor|].
    constructor; [exact S|constructor].
  Qed.

  (* what HydrateSetList keeps: per input layer exactly its members that belong
     to the object set, empty results dropped *)
  Lemma hydrate_spec L ids :
    Forall2 set_eq (hydrate L ids)
            (filter (fun l => negb (is_nil l)) (map (filter (fun v => mem v ids)) L)).
  Proof.
    induction L as [|l L IH]; [constructor|].
    unfold Graph.hydrate in *. simpl.
    pose proof (isort_In (filter (fun v => mem v ids) l)) as S.
    destruct (filter (fun v => mem v ids) l) as [|x r]; [exact IH|].
    constructor; [|exact IH]. intros y. apply S.
  Qed.

  Lemma reverse_set_list_spec (l : list (list V)) : reverse_set_list l = rev (map (@rev V) l).
  Proof. unfold reverse_set_list. apply map_rev. Qed.

  Lemma nth_map_isort L i x : In x (nth i (map isort L) []) <-> In x (nth i L []).
  Proof.
    revert i. induction L as [|l L IH]; intros i; destruct i; simpl; try tauto.
    - apply isort_In.
    - apply IH.
  Qed.
  (* ---- the edges listed by the error ------------------------------------- *)
  Lemma edge_list_In g v w : NoDup (keys g) -> (In (v, w) (edge_list g) <-> gedge g v w).
  Proof.
    unfold edge_list, gedge, keys.
    induction g as [|[k a] t IH]; simpl; intros ND; [tauto|].
    inversion ND as [|? ? Hk Ht]; subst. specialize (IH Ht).
    rewrite in_app_iff, in_map_iff. destruct (eqb k v) eqn:E.
    - apply eqb_spec in E. subst k. split.
      + intros [[x [Hx Hi]]|H]; [inversion Hx; subst; exact Hi|].
        exfalso. apply Hk. apply IH in H. apply (gedge_src_key t v w). exact H.
      + intros H. left. exists w. split; [reflexivity|exact H].
    - apply eqb_false in E. rewrite <- IH. split; [|tauto].
      intros [[x [Hx _]]|H]; [inversion Hx; subst; contradiction|exact H].
  Qed.

  Lemma sa_err_edges g L ids es :
    wf g -> sorted_as g L (Some (ids, es)) ->
    forall v w, In (v, w) es <-> gedge g v w /\ In v ids /\ In w ids.
  Proof.
    intros W H. remember (Some (ids, es)) as e eqn:Ee.
    induction H as [|g Hne Hlv|g L e Hne Hlv H IH]; intros v w.
    - discriminate.
    - inversion Ee; subst. rewrite edge_list_In by apply W. rewrite !isort_In. split; [|tauto].
      intros Hvw. split; [exact Hvw|split].
      + eapply gedge_src_key. exact Hvw.
      + destruct W as [_ [_ CL]]. eapply CL. exact Hvw.
    - rewrite (IH (next_wf g W) Ee v w). rewrite next_gedge by exact W.
      split; [tauto|]. intros [Hvw [Hv Hw]]. split; [|tauto]. split; [exact Hvw|].
      assert (Hk : In w (keys (next_graph g))).
      { eapply sa_err_key; [apply next_wf, W|exact H|]. subst e. exact Hw. }
      apply next_keys in Hk. tauto.
  Qed.
End GraphProofs.
