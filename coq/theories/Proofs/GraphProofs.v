(* Proofs about Model/Graph.v: Graph.Sort is a minimal layering of the acyclic
   part, its error names exactly the cyclic closure, the result does not depend
   on the order in which the graph was given. *)
From Coq Require Import List Bool Arith Lia Permutation Sorting.Sorted.
From CliUtils Require Import Model.ObjSet Model.Graph Proofs.ObjSetProofs.
Import ListNotations.

(* ---- specification vocabulary ------------------------------------------- *)
(* reflexive-transitive closure of an edge relation, and its "at least one
   step" variant *)
Inductive reach {V} (E : V -> V -> Prop) : V -> V -> Prop :=
| reach_refl : forall x, reach E x x
| reach_step : forall x y z, E x y -> reach E y z -> reach E x z.

Definition reach_plus {V} (E : V -> V -> Prop) (x z : V) : Prop :=
  exists y, E x y /\ reach E y z.

(* v lies on a cycle or transitively depends on a vertex that does *)
Definition reaches_cycle {V} (E : V -> V -> Prop) (v : V) : Prop :=
  exists u, reach E v u /\ reach_plus E u u.

Lemma reach_mono {V} (E E' : V -> V -> Prop) x z :
  (forall a b, E a b -> E' a b) -> reach E x z -> reach E' x z.
Proof.
  intros H R. induction R as [x|x y z Hxy _ IH]; [constructor|].
  econstructor; [apply H; exact Hxy|exact IH].
Qed.

Lemma reaches_cycle_mono {V} (E E' : V -> V -> Prop) v :
  (forall a b, E a b -> E' a b) -> reaches_cycle E v -> reaches_cycle E' v.
Proof.
  intros H [u [R [y [Huy Ryu]]]]. exists u. split.
  - eapply reach_mono; eauto.
  - exists y. split; [apply H; exact Huy|eapply reach_mono; eauto].
Qed.

Lemma reach_trans {V} (E : V -> V -> Prop) x y z :
  reach E x y -> reach E y z -> reach E x z.
Proof.
  intros R1 R2. induction R1 as [x|x y' z' Hxy _ IH]; [exact R2|].
  econstructor; [exact Hxy|apply IH; exact R2].
Qed.

Lemma NoDup_app_intro {A} (a b : list A) :
  NoDup a -> NoDup b -> (forall x, In x a -> In x b -> False) -> NoDup (a ++ b).
Proof.
  induction a as [|x t IH]; simpl; intros Ha Hb Hd; [exact Hb|].
  inversion Ha as [|? ? Hx Ht]; subst. constructor.
  - rewrite in_app_iff. intros [H|H]; [contradiction|]. apply (Hd x); [left; reflexivity|exact H].
  - apply IH; auto. intros y Hy. apply Hd. right. exact Hy.
Qed.

Lemma NoDup_app_inv {A} (a b : list A) :
  NoDup (a ++ b) -> NoDup a /\ NoDup b /\ (forall x, In x a -> In x b -> False).
Proof.
  induction a as [|x t IH]; simpl; intros H.
  - split; [constructor|split; [exact H|intros x []]].
  - inversion H as [|? ? Hx Ht]; subst. destruct (IH Ht) as [Na [Nb Hd]].
    split; [|split; [exact Nb|]].
    + constructor; [|exact Na]. intros Hi. apply Hx. apply in_app_iff. left. exact Hi.
    + intros y [->|Hy] Hb; [apply Hx; apply in_app_iff; right; exact Hb|eapply Hd; eauto].
Qed.

Section GraphProofs.
  Variable V : Type.
  Variable eqb : V -> V -> bool.
  Hypothesis eqb_spec : forall x y, eqb x y = true <-> x = y.

  Notation gmap := (gmap V).
  Notation mem := (ObjSet.mem eqb).
  Notation has_key := (has_key eqb).
  Notation adj_of := (adj_of eqb).
  Notation add_vertex := (add_vertex eqb).
  Notation add_edge := (add_edge eqb).
  Notation add_edges := (add_edges eqb).
  Notation append_adj := (append_adj eqb).
  Notation remove_vertex := (remove_vertex eqb).
  Notation build := (build eqb).

  Let mem_In := mem_In V eqb eqb_spec.
  Let mem_false := mem_false V eqb eqb_spec.
  Let eqb_refl := ObjSetProofs.eqb_refl V eqb eqb_spec.
  Let eqb_false := ObjSetProofs.eqb_false V eqb eqb_spec.

  Definition keys (g : gmap) : list V := map fst g.
  (* the edge relation a graph value denotes *)
  Definition gedge (g : gmap) (v w : V) : Prop := In w (adj_of g v).

  Definition wf (g : gmap) : Prop :=
    NoDup (keys g)
    /\ (forall v, NoDup (adj_of g v))
    /\ (forall v w, gedge g v w -> In w (keys g)).

  Lemma eq_dec : forall x y : V, {x = y} + {x <> y}.
  Proof.
    intros x y. destruct (eqb x y) eqn:E.
    - left. apply eqb_spec. exact E.
    - right. apply eqb_false. exact E.
  Qed.

  Lemma In_dec' : forall (x : V) l, {In x l} + {~ In x l}.
  Proof. intros x l. apply in_dec. exact eq_dec. Qed.

  (* ---- keys / adj_of ----------------------------------------------------- *)
  Lemma has_key_In g v : has_key g v = true <-> In v (keys g).
  Proof.
    induction g as [|[k a] t IH]; simpl; [split; [discriminate|tauto]|].
    rewrite orb_true_iff, IH, eqb_spec. tauto.
  Qed.

  Lemma has_key_false g v : has_key g v = false <-> ~ In v (keys g).
  Proof. rewrite <- has_key_In. destruct (has_key g v); intuition congruence. Qed.

  Lemma adj_of_absent g v : ~ In v (keys g) -> adj_of g v = [].
  Proof.
    induction g as [|[k a] t IH]; simpl; intros H; [reflexivity|].
    destruct (eqb k v) eqn:E.
    - apply eqb_spec in E. subst. exfalso. apply H. left. reflexivity.
    - apply IH. intros Hv. apply H. right. exact Hv.
  Qed.

  Lemma gedge_src_key g v w : gedge g v w -> In v (keys g).
  Proof.
    unfold gedge. intros H. destruct (In_dec' v (keys g)) as [Hk|Hk]; [exact Hk|].
    rewrite adj_of_absent in H by exact Hk. destruct H.
  Qed.

  Lemma adj_of_app_new g v x : adj_of (g ++ [(v, [])]) x = adj_of g x.
  Proof.
    induction g as [|[k a] t IH]; simpl.
    - destruct (eqb v x); reflexivity.
    - destruct (eqb k x); [reflexivity|exact IH].
  Qed.

  Lemma keys_app g h : keys (g ++ h) = keys g ++ keys h.
  Proof. unfold keys. apply map_app. Qed.

  (* ---- AddVertex --------------------------------------------------------- *)
  Lemma add_vertex_keys g v x : In x (keys (add_vertex g v)) <-> In x (keys g) \/ x = v.
  Proof.
    unfold Graph.add_vertex. destruct (has_key g v) eqn:H.
    - apply has_key_In in H. split; [tauto|]. intros [Hx|Hx]; [exact Hx|subst; exact H].
    - rewrite keys_app, in_app_iff. simpl. intuition.
  Qed.

  Lemma add_vertex_adj g v x : adj_of (add_vertex g v) x = adj_of g x.
  Proof.
    unfold Graph.add_vertex. destruct (has_key g v); [reflexivity|apply adj_of_app_new].
  Qed.

  Lemma add_vertex_wf g v : wf g -> wf (add_vertex g v).
  Proof.
    intros [ND [NA CL]]. split; [|split].
    - unfold Graph.add_vertex. destruct (has_key g v) eqn:H; [exact ND|].
      apply has_key_false in H. rewrite keys_app. simpl.
      apply NoDup_app_intro; auto.
      + constructor; [intros []|constructor].
      + intros x Hx [Hv|[]]. subst. contradiction.
    - intros x. rewrite add_vertex_adj. apply NA.
    - intros x w. unfold gedge. rewrite add_vertex_adj. intros H.
      apply add_vertex_keys. left. apply CL with x. exact H.
  Qed.

  (* ---- append / AddEdge -------------------------------------------------- *)
  Lemma append_adj_keys g f t : keys (append_adj g f t) = keys g.
  Proof.
    induction g as [|[k a] r IH]; simpl; [reflexivity|].
    destruct (eqb k f); simpl; [reflexivity|]. f_equal. exact IH.
  Qed.

  Lemma append_adj_adj g f t x :
    adj_of (append_adj g f t) x =
    if eqb x f && has_key g f then adj_of g f ++ [t] else adj_of g x.
  Proof.
    induction g as [|[k a] r IH]; simpl.
    - rewrite andb_false_r. reflexivity.
    - destruct (eqb k f) eqn:Ekf; simpl.
      + apply eqb_spec in Ekf. subst k. rewrite andb_true_r.
        destruct (eqb f x) eqn:Efx.
        * apply eqb_spec in Efx. subst x. rewrite eqb_refl. reflexivity.
        * destruct (eqb x f) eqn:Exf; [|reflexivity].
          apply eqb_spec in Exf. subst. rewrite eqb_refl in Efx. discriminate.
      + rewrite IH. destruct (eqb k x) eqn:Ekx.
        * apply eqb_spec in Ekx. subst x. rewrite Ekf. reflexivity.
        * reflexivity.
  Qed.

  Lemma add_edge_keys g f t x :
    In x (keys (add_edge g f t)) <-> In x (keys g) \/ x = f \/ x = t.
  Proof.
    unfold Graph.add_edge.
    destruct (is_adjacent eqb (add_vertex (add_vertex g f) t) f t).
    - rewrite !add_vertex_keys. tauto.
    - rewrite append_adj_keys, !add_vertex_keys. tauto.
  Qed.

  Lemma add_edge_gedge g f t v w :
    gedge (add_edge g f t) v w <-> gedge g v w \/ (v = f /\ w = t).
  Proof.
    unfold Graph.add_edge, gedge.
    set (g2 := add_vertex (add_vertex g f) t).
    assert (A2 : forall x, adj_of g2 x = adj_of g x)
      by (intros x; unfold g2; rewrite !add_vertex_adj; reflexivity).
    assert (K2 : has_key g2 f = true).
    { apply has_key_In. unfold g2. rewrite !add_vertex_keys. tauto. }
    unfold Graph.is_adjacent. rewrite K2. simpl.
    destruct (mem t (adj_of g2 f)) eqn:M.
    - apply mem_In in M. rewrite A2 in *. split; [tauto|].
      intros [H|[-> ->]]; [exact H|exact M].
    - rewrite append_adj_adj, K2, andb_true_r.
      destruct (eqb v f) eqn:E.
      + apply eqb_spec in E. subst v. rewrite in_app_iff, !A2. simpl.
        split; [intros [H|[H|[]]]; [tauto|subst; tauto]|].
        intros [H|[_ ->]]; tauto.
      + rewrite A2. apply eqb_false in E. split; [tauto|]. intros [H|[-> _]]; [exact H|contradiction].
  Qed.

  Lemma add_edge_wf g f t : wf g -> wf (add_edge g f t).
  Proof.
    intros W.
    assert (W2 : wf (add_vertex (add_vertex g f) t)) by (apply add_vertex_wf, add_vertex_wf, W).
    split; [|split].
    - unfold Graph.add_edge.
      destruct (is_adjacent eqb (add_vertex (add_vertex g f) t) f t);
        [|unfold keys in *; rewrite append_adj_keys]; apply W2.
    - intros x. unfold Graph.add_edge.
      set (g2 := add_vertex (add_vertex g f) t) in *.
      assert (K2 : has_key g2 f = true).
      { apply has_key_In. unfold g2. rewrite !add_vertex_keys. tauto. }
      unfold Graph.is_adjacent. rewrite K2. simpl.
      destruct (mem t (adj_of g2 f)) eqn:M; [apply W2|].
      rewrite append_adj_adj, K2, andb_true_r.
      destruct (eqb x f); [|apply W2].
      apply mem_false in M. destruct W2 as [_ [NA _]].
      apply NoDup_app_intro; auto.
      + constructor; [intros []|constructor].
      + intros y Hy [Ht|[]]. subst. contradiction.
    - intros v w H. apply add_edge_gedge in H. apply add_edge_keys.
      destruct H as [H|[-> ->]]; [|tauto].
      left. destruct W as [_ [_ CL]]. apply CL with v. exact H.
  Qed.

  (* ---- build ------------------------------------------------------------- *)
  Lemma wf_nil : wf [].
  Proof.
    split; [constructor|split]; [intros v; constructor|intros v w []].
  Qed.

  Lemma add_vertices_wf vs g : wf g -> wf (fold_left add_vertex vs g).
  Proof.
    revert g. induction vs as [|v t IH]; simpl; intros g W; [exact W|].
    apply IH. apply add_vertex_wf. exact W.
  Qed.

  Lemma add_vertices_keys vs g x :
    In x (keys (fold_left add_vertex vs g)) <-> In x (keys g) \/ In x vs.
  Proof.
    revert g. induction vs as [|v t IH]; simpl; intros g; [tauto|].
    rewrite IH, add_vertex_keys. intuition.
  Qed.

  Lemma add_vertices_gedge vs g v w :
    gedge (fold_left add_vertex vs g) v w <-> gedge g v w.
  Proof.
    revert g. induction vs as [|x t IH]; simpl; intros g; [tauto|].
    rewrite IH. unfold gedge. rewrite add_vertex_adj. tauto.
  Qed.

  Lemma add_edges_wf es g : wf g -> wf (add_edges g es).
  Proof.
    unfold Graph.add_edges. revert g. induction es as [|e t IH]; simpl; intros g W; [exact W|].
    apply IH. apply add_edge_wf. exact W.
  Qed.

  Lemma add_edges_keys es g x :
    In x (keys (add_edges g es)) <->
    In x (keys g) \/ exists e, In e es /\ (x = fst e \/ x = snd e).
  Proof.
    unfold Graph.add_edges. revert g. induction es as [|e t IH]; simpl; intros g.
    - split; [tauto|]. intros [H|[e [[] _]]]. exact H.
    - rewrite IH, add_edge_keys. split.
      + intros [[H|H]|[e' [He' H]]]; [tauto| |].
        * right. exists e. tauto.
        * right. exists e'. tauto.
      + intros [H|[e' [[He'|He'] H]]]; [tauto| |].
        * subst e'. tauto.
        * right. exists e'. tauto.
  Qed.

  Lemma add_edges_gedge es g v w :
    gedge (add_edges g es) v w <-> gedge g v w \/ In (v, w) es.
  Proof.
    unfold Graph.add_edges. revert g. induction es as [|[a b] t IH]; simpl; intros g; [tauto|].
    rewrite IH, add_edge_gedge. simpl. split.
    - intros [[H|[-> ->]]|H]; tauto.
    - intros [H|[H|H]]; [tauto| |tauto]. inversion H. subst. tauto.
  Qed.

  Lemma build_wf vs es : wf (build vs es).
  Proof. unfold Graph.build. apply add_edges_wf, add_vertices_wf, wf_nil. Qed.

  Lemma build_keys vs es x :
    In x (keys (build vs es)) <-> In x vs \/ exists e, In e es /\ (x = fst e \/ x = snd e).
  Proof.
    unfold Graph.build. rewrite add_edges_keys, add_vertices_keys. simpl. tauto.
  Qed.

  Lemma build_gedge vs es v w : gedge (build vs es) v w <-> In (v, w) es.
  Proof.
    unfold Graph.build. rewrite add_edges_gedge, add_vertices_gedge. unfold gedge. simpl. tauto.
  Qed.
End GraphProofs.
