(* C01 (no orphans), part 2b: the wait machine and objects held by a finalizer.
   An accepted DELETE of a finalizer-held object leaves the object live and
   annotated; its record is (SDelete, ASucceeded, plan-time UID).  The inventory
   keeps such an object only through its reconcile status (RFailed / RTimeout),
   so the proof needs what `quiet` deliberately forgets: how the wait machine
   moves the reconcile field.  Under the hypothesis that no status delivery
   claims a finalizer-held object to be NotFound or replaced (`finok`),
     - the reconcile status of a lingering object stays in {Pending, Failed, Timeout};
     - ids outside the wait set are untouched;
     - a wait phase that ends without setting the abort flag leaves no id of
       its set Pending. *)
From Coq Require Import List Bool Arith NArith ZArith Lia Permutation.
From CliUtils Require Import Model.ObjSet Model.ActuationTable Model.PipelineTypes Model.Pipeline
     Proofs.ObjSetProofs Proofs.ActuationTableProofs Proofs.PipelineBase Proofs.PipelineAuth
     Corr.CorrPipeline Proofs.PipelineOrphansBase Proofs.PipelineOrphansSpec.
Import ListNotations.

Definition rc3 (x : option reconcile) : Prop := x = Some RPending \/ x = Some RFailed \/ x = Some RTimeout.

Section Wait.
  Variable sc : scenario.
  Variable c0 : cluster.
  (* the apply ids of the plan: the resource cache also holds what the apply-time mutator Put there about
     its sources, which are objects of the apply set; the lingering objects are prune objects *)
  Variable aids : list id.

  (* a status delivery does not lie about a finalizer-held object: not NotFound,
     and no UID other than the one the object has in c0 *)
  Definition finok (o : sobs) : Prop :=
    u_fin (uinfo_of sc (s_id o)) = true ->
    s_st o <> SNotFound /\
    (s_body o = true -> s_uid o <> 0%N -> forall c, fo c0 (s_id o) = Some c -> s_uid o = c_uid c).
  Definition cacheok (s : rst) : Prop := forall o, In o (r_cache s) -> In (s_id o) aids \/ finok o.

  (* j lingers: held by a finalizer, its delete was accepted (recorded with the UID it has in c0) *)
  Definition ling (s : rst) (j : id) : Prop :=
    u_fin (uinfo_of sc j) = true /\ ~ In j aids /\
    exists c', fo c0 j = Some c' /\ tv s j = Some (SDelete, ASucceeded, c_uid c').

  Lemma cache_get_id c i : s_id (cache_get c i) = i.
  Proof.
    induction c as [|x t IH]; cbn; [reflexivity|].
    destruct (Nat.eqb (s_id x) i) eqn:E; [apply Nat.eqb_eq; exact E|exact IH].
  Qed.

  Lemma cache_get_ok s i : cacheok s -> In i aids \/ finok (cache_get (r_cache s) i).
  Proof.
    unfold cacheok. induction (r_cache s) as [|x t IH]; intros H; cbn.
    - right. intros _. cbn. split; [discriminate|intros X; discriminate X].
    - destruct (Nat.eqb (s_id x) i) eqn:E; [|apply IH; intros o Ho; apply H; right; exact Ho].
      apply Nat.eqb_eq in E. destruct (H x (or_introl eq_refl)) as [A|A]; [left; rewrite <- E; exact A|right; exact A].
  Qed.

  Lemma tv_lookup s j st a u : tv s j = Some (st, a, u) ->
    exists r, lookup Nat.eqb (r_tbl s) j = Some r /\ r_str r = st /\ r_act r = a /\ r_uid r = u.
  Proof.
    unfold tv, tvl. destruct (lookup Nat.eqb (r_tbl s) j) as [r|]; [|discriminate].
    cbn. unfold tcore. intros [= <- <- <-]. exists r. auto.
  Qed.

  Lemma ling_safe s j : cacheok s -> ling s j ->
    changed_uid s j = false /\ cond_met AllNotFound s j = false /\ w_skipped AllNotFound s j = false.
  Proof.
    intros CO [UF [NA [c' [H0 HT]]]]. destruct (tv_lookup _ _ _ _ _ HT) as [r [L [E1 [E2 E3]]]].
    destruct (cache_get_ok s j CO) as [FO|FO]; [contradiction|]. unfold finok in FO. rewrite cache_get_id in FO.
    destruct (FO UF) as [NF UID]. split; [|split].
    - unfold changed_uid. rewrite L. destruct (N.eqb (r_uid r) 0); [reflexivity|].
      destruct (s_body (cache_get (r_cache s) j)) eqn:B; cbn [negb]; [|reflexivity].
      destruct (N.eqb (s_uid (cache_get (r_cache s) j)) 0) eqn:Z; [reflexivity|].
      apply N.eqb_neq in Z. rewrite (UID eq_refl Z c' H0), E3, N.eqb_refl. reflexivity.
    - unfold cond_met. destruct (s_st (cache_get (r_cache s) j)); try reflexivity. exfalso. apply NF. reflexivity.
    - unfold w_skipped, is_actuation. rewrite L, E1, E2. reflexivity.
  Qed.

  Lemma cache_rec_reconcile s i r : r_cache (rec_reconcile s i r) = r_cache s.
  Proof. unfold rec_reconcile. destruct (set_reconcile Nat.eqb (r_tbl s) i r); reflexivity. Qed.

  Lemma tv_rec_reconcile s i r j : tv (rec_reconcile s i r) j = tv s j.
  Proof. destruct (quiet_rec_reconcile s i r) as [_ [_ [_ [Q _]]]]. apply Q. Qed.

  (* ---- the invariant of one wait phase, relative to the state s0 it starts from ------------- *)
  Record MI (c : wcond) (ids : list id) (s0 s : rst) (pend done : list id) : Prop := {
    M_cache : cacheok s;
    M_tv : forall j, tv s j = tv s0 j;
    M_pend : incl pend ids;
    M_cov : forall j, In j done -> rc s j = Some RPending -> In j pend;
    M_out : forall j, ~ In j ids -> rc s j = rc s0 j;
    M_ling : c = AllNotFound -> forall j, ling s0 j -> rc3 (rc s0 j) -> rc3 (rc s j);
  }.

  Lemma MI_init c ids s0 : cacheok s0 -> MI c ids s0 s0 [] [].
  Proof.
    intros H. constructor; auto.
    all: intros x [].
  Qed.

  Lemma MI_tbl_same c ids s0 s s' pend done :
    r_tbl s' = r_tbl s -> cacheok s' -> MI c ids s0 s pend done -> MI c ids s0 s' pend done.
  Proof.
    intros E CO [A1 A2 A3 A4 A5 A6].
    assert (RC : forall j, rc s' j = rc s j) by (intros j; unfold rc; rewrite E; reflexivity).
    assert (TV : forall j, tv s' j = tv s j) by (intros j; unfold tv; rewrite E; reflexivity).
    constructor.
    - exact CO.
    - intros j. rewrite TV. apply A2.
    - exact A3.
    - intros j Hj. rewrite RC. apply A4. exact Hj.
    - intros j Hj. rewrite RC. apply A5. exact Hj.
    - intros C j L R. rewrite RC. apply A6; assumption.
  Qed.

  Lemma ling_now c ids s0 s pend done j : MI c ids s0 s pend done -> ling s0 j -> ling s j.
  Proof. intros M [UF [NA [c' [H0 HT]]]]. split; [exact UF|]. split; [exact NA|]. exists c'. split; [exact H0|]. rewrite (M_tv _ _ _ _ _ _ M). exact HT. Qed.

  Lemma ling_contra c ids s0 s pend done i : MI c ids s0 s pend done -> c = AllNotFound -> ling s0 i ->
    changed_uid s i = true \/ cond_met c s i = true \/ w_skipped c s i = true -> False.
  Proof.
    intros M -> L H. destruct (ling_safe s i (M_cache _ _ _ _ _ _ M) (ling_now _ _ _ _ _ _ _ M L)) as [A [B C]].
    destruct H as [H|[H|H]]; congruence.
  Qed.

  Lemma MI_upd c ids s0 s pend done pend' done' i r e :
    In i ids -> incl pend' (i :: pend) -> (forall j, j <> i -> In j pend -> In j pend') ->
    (r = RPending -> In i pend') -> (forall j, In j done' -> j = i \/ In j done) ->
    (c = AllNotFound -> ling s0 i -> r = RPending \/ r = RFailed \/ r = RTimeout) ->
    MI c ids s0 s pend done -> MI c ids s0 (ev (rec_reconcile s i r) e) pend' done'.
  Proof.
    intros Hi Hinc Hmono Hp Hdone Hal [A1 A2 A3 A4 A5 A6].
    assert (RC : forall j, rc (ev (rec_reconcile s i r) e) j =
                           if Nat.eqb i j then option_map (fun _ => r) (rc s j) else rc s j)
      by (intros j; exact (rc_rec_reconcile s i r j)).
    constructor.
    - unfold cacheok. cbn [ev emit r_cache]. rewrite cache_rec_reconcile. exact A1.
    - intros j. change (tv (rec_reconcile s i r) j = tv s0 j). rewrite tv_rec_reconcile. apply A2.
    - intros x Hx. apply Hinc in Hx. destruct Hx as [<-|Hx]; [exact Hi|apply A3; exact Hx].
    - intros j Hj E. rewrite RC in E. destruct (Nat.eqb i j) eqn:Eij.
      + apply Nat.eqb_eq in Eij. subst j. destruct (rc s i); cbn in E; [|discriminate].
        injection E as ->. apply Hp. reflexivity.
      + apply Nat.eqb_neq in Eij. destruct (Hdone j Hj) as [->|Hd]; [congruence|].
        apply Hmono; [congruence|]. apply A4; assumption.
    - intros j Hj. rewrite RC. destruct (Nat.eqb i j) eqn:Eij; [|apply A5; exact Hj].
      apply Nat.eqb_eq in Eij. subst j. contradiction.
    - intros C j Lj R3. rewrite RC. destruct (Nat.eqb i j) eqn:Eij; [|apply A6; assumption].
      apply Nat.eqb_eq in Eij. subst j.
      destruct (A6 C i Lj R3) as [E|[E|E]]; rewrite E; cbn [option_map];
        destruct (Hal C Lj) as [-> | [-> | ->]]; unfold rc3; auto.
  Qed.

  (* the three ways a step changes the pending list *)
  Lemma rm_in (l : list id) i j : In j (remove Nat.eqb l i) -> In j l.
  Proof.
    intros H. destruct (in_dec Nat.eq_dec i l) as [X|X].
    - eapply Permutation_in; [apply (remove_present nat Nat.eqb nat_eqb_spec _ _ X)|right; exact H].
    - rewrite (remove_absent nat Nat.eqb nat_eqb_spec _ _ X) in H. exact H.
  Qed.
  Lemma rm_keep (l : list id) i j : j <> i -> In j l -> In j (remove Nat.eqb l i).
  Proof.
    intros N H. destruct (in_dec Nat.eq_dec i l) as [X|X].
    - apply (Permutation_in _ (Permutation_sym (remove_present nat Nat.eqb nat_eqb_spec _ _ X))) in H.
      destruct H as [H|H]; [congruence|exact H].
    - rewrite (remove_absent nat Nat.eqb nat_eqb_spec _ _ X). exact H.
  Qed.

  Lemma MI_same c ids s0 s pend i r e : In i ids -> r <> RPending ->
    (c = AllNotFound -> ling s0 i -> r = RPending \/ r = RFailed \/ r = RTimeout) ->
    MI c ids s0 s pend ids -> MI c ids s0 (ev (rec_reconcile s i r) e) pend ids.
  Proof.
    intros Hi Hr Hal. apply MI_upd; auto.
    - intros x Hx. right. exact Hx.
    - intros X. contradiction.
  Qed.
  Lemma MI_rm c ids s0 s pend i r e : In i ids -> r <> RPending ->
    (c = AllNotFound -> ling s0 i -> r = RPending \/ r = RFailed \/ r = RTimeout) ->
    MI c ids s0 s pend ids -> MI c ids s0 (ev (rec_reconcile s i r) e) (remove Nat.eqb pend i) ids.
  Proof.
    intros Hi Hr Hal. apply MI_upd; auto.
    - intros x Hx. right. eapply rm_in. exact Hx.
    - intros j N Hj. apply rm_keep; assumption.
    - intros X. contradiction.
  Qed.
  Lemma MI_app c ids s0 s pend done i r e : In i ids ->
    (c = AllNotFound -> ling s0 i -> r = RPending \/ r = RFailed \/ r = RTimeout) ->
    MI c ids s0 s pend done -> MI c ids s0 (ev (rec_reconcile s i r) e) (pend ++ [i]) (done ++ [i]).
  Proof.
    intros Hi Hal. apply MI_upd; auto.
    - intros x Hx. apply in_app_or in Hx. destruct Hx as [Hx|[<-|[]]]; [right; exact Hx|left; reflexivity].
    - intros j _ Hj. apply in_or_app. left. exact Hj.
    - intros _. apply in_or_app. right. left. reflexivity.
    - intros j Hj. apply in_app_or in Hj. destruct Hj as [Hj|[<-|[]]]; auto.
  Qed.

  Lemma handle_changed_uid_eq c g s i :
    handle_changed_uid c g s i =
    ev (rec_reconcile s i (match c with AllNotFound => RSucceeded | AllCurrent => RFailed end))
       (EWait g i (match c with AllNotFound => WOk | AllCurrent => WFailed end)).
  Proof. destruct c; reflexivity. Qed.

  Ltac allowed M :=
    let C := fresh "C" in let L := fresh "L" in
    intros C L;
    first [ solve [auto]
          | exfalso; eapply (ling_contra _ _ _ _ _ _ _ M C L); solve [auto]
          | exfalso; subst; discriminate ].

  (* ---- wait_start ---------------------------------------------------------------------------- *)
  Lemma MI_wait_start c g ids s0 : cacheok s0 ->
    MI c ids s0 (fst (wait_start c g ids s0)) (w_pending (snd (wait_start c g ids s0))) ids.
  Proof.
    intros CO. unfold wait_start.
    set (stepf := fun (acc : rst * list id) (i : id) => _).
    assert (H : forall l s pend done, incl l ids -> MI c ids s0 s pend done ->
              MI c ids s0 (fst (fold_left stepf l (s, pend))) (snd (fold_left stepf l (s, pend))) (done ++ l)).
    { induction l as [|i l IH]; intros s pend done Hl M; cbn [fold_left]; [rewrite app_nil_r; exact M|].
      assert (Hi : In i ids) by (apply Hl; left; reflexivity).
      assert (Hl' : incl l ids) by (intros x Hx; apply Hl; right; exact Hx).
      replace (done ++ i :: l) with ((done ++ [i]) ++ l) by (rewrite <- app_assoc; reflexivity).
      assert (SAME : forall r e, r <> RPending ->
                (c = AllNotFound -> ling s0 i -> r = RPending \/ r = RFailed \/ r = RTimeout) ->
                MI c ids s0 (ev (rec_reconcile s i r) e) pend (done ++ [i])).
      { intros r e Hr Hal. apply (MI_upd c ids s0 s pend done pend (done ++ [i]) i r e); auto.
        - intros x Hx. right. exact Hx.
        - intros X. contradiction.
        - intros j Hj. apply in_app_or in Hj. destruct Hj as [Hj|[<-|[]]]; auto. }
      assert (STEP : MI c ids s0 (fst (stepf (s, pend) i)) (snd (stepf (s, pend) i)) (done ++ [i])).
      { unfold stepf. cbn [fst snd].
        destruct (w_skipped c s i) eqn:WS; cbn [fst snd].
        { apply SAME; [discriminate|allowed M]. }
        destruct (changed_uid s i) eqn:CU; cbn [fst snd].
        { rewrite handle_changed_uid_eq. apply SAME; [destruct c; discriminate|].
          intros C L. exfalso. eapply (ling_contra _ _ _ _ _ _ _ M C L). auto. }
        destruct (cond_met c s i) eqn:CM; cbn [fst snd].
        { apply SAME; [discriminate|allowed M]. }
        apply MI_app; [exact Hi| |exact M]. auto. }
      destruct (stepf (s, pend) i) as [s' pend']. cbn [fst snd] in STEP. apply IH; assumption. }
    specialize (H ids s0 [] [] (fun x Hx => Hx) (MI_init c ids s0 CO)).
    destruct (fold_left stepf ids (s0, [])) as [s' pend]. exact H.
  Qed.

  (* ---- wait_update ----------------------------------------------------------------------------- *)
  Lemma MI_wait_update c g ids s0 s w i : In i ids -> MI c ids s0 s (w_pending w) ids ->
    MI c ids s0 (fst (wait_update c g ids s w i)) (w_pending (snd (wait_update c g ids s w i))) ids.
  Proof.
    intros Hi M. unfold wait_update.
    assert (APP : forall r e, (c = AllNotFound -> ling s0 i -> r = RPending \/ r = RFailed \/ r = RTimeout) ->
              MI c ids s0 (ev (rec_reconcile s i r) e) (w_pending w ++ [i]) ids).
    { intros r e Hal. apply (MI_upd c ids s0 s (w_pending w) ids (w_pending w ++ [i]) ids i r e); auto.
      - intros x Hx. apply in_app_or in Hx. destruct Hx as [Hx|[<-|[]]]; [right; exact Hx|left; reflexivity].
      - intros j _ Hj. apply in_or_app. left. exact Hj.
      - intros _. apply in_or_app. right. left. reflexivity. }
    destruct (memn i (w_pending w)) eqn:MP.
    - destruct (changed_uid s i) eqn:CU; cbn [fst snd w_pending].
      { rewrite handle_changed_uid_eq. apply MI_rm; [exact Hi|destruct c; discriminate| |exact M].
        intros C L. exfalso. eapply (ling_contra _ _ _ _ _ _ _ M C L). auto. }
      destruct (cond_met c s i) eqn:CM; cbn [fst snd w_pending].
      { apply MI_rm; [exact Hi|discriminate| |exact M]. allowed M. }
      destruct (failed_by_id s i); cbn [fst snd w_pending]; [|exact M].
      apply MI_rm; [exact Hi|discriminate| |exact M]. allowed M.
    - destruct (negb (memn i ids)); cbn [fst snd]; [exact M|].
      destruct (w_skipped c s i); cbn [fst snd]; [exact M|].
      destruct (memn i (w_failed w)).
      + destruct (changed_uid s i) eqn:CU; cbn [fst snd w_pending].
        { rewrite handle_changed_uid_eq. apply MI_same; [exact Hi|destruct c; discriminate| |exact M].
          intros C L. exfalso. eapply (ling_contra _ _ _ _ _ _ _ M C L). auto. }
        destruct (cond_met c s i) eqn:CM; cbn [fst snd w_pending].
        { apply MI_same; [exact Hi|discriminate| |exact M]. allowed M. }
        destruct (negb (failed_by_id s i)); cbn [fst snd w_pending]; [|exact M].
        apply APP. auto.
      + destruct (changed_uid s i) eqn:CU.
        { destruct c; cbn [fst snd]; [|exact M].
          destruct (is_reconcile Nat.eqb (r_tbl s) i RFailed); cbn [fst snd]; [exact M|].
          cbn [handle_changed_uid]. apply MI_same; [exact Hi|discriminate| |exact M]. intros C. discriminate C. }
        destruct (cond_met c s i) eqn:CM; cbn [negb fst snd w_pending].
        * destruct (is_reconcile Nat.eqb (r_tbl s) i RFailed); cbn [fst snd]; [|exact M].
          apply MI_same; [exact Hi|discriminate| |exact M]. allowed M.
        * apply APP. auto.
  Qed.

  (* ---- deliver ------------------------------------------------------------------------------------ *)
  Lemma MI_deliver c g ids s0 ds : (forall d, In d ds -> finok d) ->
    forall s w, MI c ids s0 s (w_pending w) ids ->
      MI c ids s0 (fst (deliver sc c g ids ds s w)) (w_pending (snd (deliver sc c g ids ds s w))) ids.
  Proof.
    induction ds as [|d t IH]; intros HF s w M; cbn [deliver]; [exact M|].
    destruct (w_pending w) eqn:EP; [cbn [fst snd]; rewrite EP; exact M|]. rewrite <- EP in *.
    set (s2 := if o_status_events (sc_opts sc) then ev (emit s (IDeliv d)) (EStatus (s_id d) (s_st d)) else emit s (IDeliv d)).
    set (s3 := set_cache s2 (d :: r_cache s2)).
    assert (M3 : MI c ids s0 s3 (w_pending w) ids).
    { apply (MI_tbl_same c ids s0 s s3); [unfold s3, s2; destruct (o_status_events (sc_opts sc)); reflexivity| |exact M].
      intros o Ho. assert (X : o = d \/ In o (r_cache s)).
      { unfold s3, s2 in Ho. destruct (o_status_events (sc_opts sc)); cbn in Ho; destruct Ho as [<-|Ho]; auto. }
      destruct X as [->|X]; [right; apply HF; left; reflexivity|exact (M_cache _ _ _ _ _ _ M o X)]. }
    assert (HF' : forall d0, In d0 t -> finok d0) by (intros d0 Hd; apply HF; right; exact Hd).
    destruct (memn (s_id d) ids) eqn:MD.
    - apply memn_In in MD. pose proof (MI_wait_update c g ids s0 s3 w (s_id d) MD M3) as U.
      destruct (wait_update c g ids s3 w (s_id d)) as [s4 w4]. cbn [fst snd] in U. apply IH; assumption.
    - apply IH; assumption.
  Qed.

  (* ---- wait_timeout ---------------------------------------------------------------------------------- *)
  Lemma rc_timeout_fold g l : forall s j,
    rc (fold_left (fun s i => ev (rec_reconcile s i RTimeout) (EWait g i WTimedOut)) l s) j =
    if memn j l then option_map (fun _ => RTimeout) (rc s j) else rc s j.
  Proof.
    induction l as [|i l IH]; intros s j; cbn [fold_left]; [reflexivity|].
    rewrite IH. change (rc (ev (rec_reconcile s i RTimeout) (EWait g i WTimedOut)) j) with (rc (rec_reconcile s i RTimeout) j).
    rewrite rc_rec_reconcile. unfold memn. cbn [existsb]. rewrite (Nat.eqb_sym j i).
    destruct (Nat.eqb i j); cbn [orb]; [|reflexivity].
    destruct (existsb (Nat.eqb j) l); destruct (rc s j); reflexivity.
  Qed.

  Lemma MI_timeout c g ids s0 l : forall s pend, incl l ids -> MI c ids s0 s pend ids ->
    MI c ids s0 (fold_left (fun s i => ev (rec_reconcile s i RTimeout) (EWait g i WTimedOut)) l s) pend ids.
  Proof.
    induction l as [|i l IH]; intros s pend Hl M; cbn [fold_left]; [exact M|].
    apply IH; [intros x Hx; apply Hl; right; exact Hx|].
    apply MI_same; [apply Hl; left; reflexivity|discriminate|auto|exact M].
  Qed.

  (* ---- the whole wait task ----------------------------------------------------------------------------- *)
  Theorem wait_task_fin c g ids s :
    cacheok s -> (forall w o, In w (e_waits (sc_env sc)) -> In o (w_deliv w) -> finok o) ->
    let s' := wait_task sc c g ids s in
    cacheok s' /\ (forall j, ~ In j ids -> rc s' j = rc s j) /\
    (c = AllNotFound -> forall j, ling s j -> rc3 (rc s j) -> rc3 (rc s' j)) /\
    (r_abort s' = false -> forall j, In j ids -> rc s' j <> Some RPending).
  Proof.
    intros CO HD. cbv zeta.
    assert (PACK : forall s' pend, MI c ids s s' pend ids ->
              (r_abort s' = false -> forall j, In j ids -> rc s' j <> Some RPending) ->
              cacheok s' /\ (forall j, ~ In j ids -> rc s' j = rc s j) /\
              (c = AllNotFound -> forall j, ling s j -> rc3 (rc s j) -> rc3 (rc s' j)) /\
              (r_abort s' = false -> forall j, In j ids -> rc s' j <> Some RPending)).
    { intros s' pend [A1 A2 A3 A4 A5 A6] H. auto. }
    assert (NIL : forall s', MI c ids s s' [] ids -> r_abort s' = false -> forall j, In j ids -> rc s' j <> Some RPending).
    { intros s' M _ j Hj E. exact (M_cov _ _ _ _ _ _ M j Hj E). }
    assert (ABORT : forall s' pend, MI c ids s s' pend ids -> MI c ids s (set_abort s') pend ids).
    { intros s' pend M. apply (MI_tbl_same c ids s s'); [reflexivity|exact (M_cache _ _ _ _ _ _ M)|exact M]. }
    assert (RESET : forall s' pend, MI c ids s s' pend ids -> MI c ids s (wait_reset sc c ids s') pend ids).
    { intros s' pend M. apply (MI_tbl_same c ids s s'); [apply wait_reset_tbl| |exact M].
      unfold cacheok. rewrite wait_reset_cache. exact (M_cache _ _ _ _ _ _ M). }
    assert (RNIL : forall s', MI c ids s s' [] ids ->
              r_abort (wait_reset sc c ids s') = false -> forall j, In j ids -> rc (wait_reset sc c ids s') j <> Some RPending).
    { intros s' M _ j Hj E. exact (M_cov _ _ _ _ _ _ (RESET _ _ M) j Hj E). }
    unfold wait_task. cbv zeta.
    pose proof (MI_wait_start c g ids s CO) as M1.
    destruct (wait_start c g ids s) as [s1 w1]. cbn [fst snd] in M1.
    destruct (w_pending w1) eqn:EP1; [apply (PACK _ []); [apply RESET; exact M1|apply RNIL; exact M1]|]. rewrite <- EP1 in *.
    destruct (match e_watch_err_at (sc_env sc) with Some n => Nat.eqb n (snd g) | None => false end).
    { apply (PACK _ _ (ABORT _ _ M1)). intros X. discriminate X. }
    set (ws := nth (snd g) (e_waits (sc_env sc)) (mkW [] WTimeout)).
    assert (HW : forall d, In d (w_deliv ws) -> finok d).
    { intros d Hd. unfold ws in Hd. destruct (nth_in_or_default (snd g) (e_waits (sc_env sc)) (mkW [] WTimeout)) as [X|X].
      - eapply HD; eassumption.
      - rewrite X in Hd. destruct Hd. }
    pose proof (MI_deliver c g ids s (w_deliv ws) HW s1 w1 M1) as M2.
    destruct (deliver sc c g ids (w_deliv ws) s1 w1) as [s2 w2]. cbn [fst snd] in M2.
    destruct (w_pending w2) eqn:EP2; [apply (PACK _ []); [apply RESET; exact M2|apply RNIL; exact M2]|]. rewrite <- EP2 in *.
    assert (TO : let s' := wait_reset sc c ids (wait_timeout g s2 w2) in
                 cacheok s' /\ (forall j, ~ In j ids -> rc s' j = rc s j) /\
                 (c = AllNotFound -> forall j, ling s j -> rc3 (rc s j) -> rc3 (rc s' j)) /\
                 (r_abort s' = false -> forall j, In j ids -> rc s' j <> Some RPending)).
    { cbv zeta. unfold wait_timeout.
      apply (PACK _ (w_pending w2)); [apply RESET; apply MI_timeout; [exact (M_pend _ _ _ _ _ _ M2)|exact M2]|].
      intros _ j Hj E. unfold rc in E. rewrite wait_reset_tbl in E. fold (rc (fold_left (fun s i => ev (rec_reconcile s i RTimeout) (EWait g i WTimedOut)) (w_pending w2) s2) j) in E.
      rewrite rc_timeout_fold in E. destruct (memn j (w_pending w2)) eqn:MJ.
      - destruct (rc s2 j); cbn in E; discriminate E.
      - pose proof (M_cov _ _ _ _ _ _ M2 j Hj E) as X. apply memn_In in X. congruence. }
    destruct (w_end ws).
    - destruct (match c with AllCurrent => _ | AllNotFound => _ end); [exact TO|].
      apply (PACK _ _ (ABORT _ _ M2)). intros X. discriminate X.
    - apply (PACK _ _ (ABORT _ _ M2)). intros X. discriminate X.
  Qed.
End Wait.
