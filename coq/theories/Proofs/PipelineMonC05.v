(* mon_C05 (Corr/CorrPipeline.v) holds of every run of the model from a
   well-formed scenario / initial cluster:

     Theorem monitor_C05 : forall sc c0, WF sc c0 -> mon_C05 sc c0 (run sc c0) = true.

   mon_C05 = mon_C05_order && mon_C05_inventory (PipelineOrderMon.mon_C05_split).
   The ordering conjunct is PipelineOrderMon.mon_C05_order_holds (no hypothesis).
   The inventory conjunct "a dependency that was not deleted stays in the
   inventory" is proved here (`monitor_C05_inventory`) from the traversal of
   PipelineMonC05a.v: for every prune object e of the plan, in a run that ends
   without error outside dry-run and with pruning enabled,
     - the plan-time object of e carries the deletion-prevention annotation, or
     - a delete request for e reached the server, or
     - e is in the stored inventory of the final cluster
   (`c05_settled`).  WF is used for: distinct manifest ids (plan layers cover
   the prune objects; apply and prune ids are disjoint) and the UID discipline
   of the initial cluster (UIDs below the server's counter, one per object), by
   which the pruner's alias filter never spares e.  No further hypothesis
   (in particular not kf_free): nothing is left open in this file. *)
From Coq Require Import List Bool Arith NArith ZArith Lia Permutation.
From CliUtils Require Import Model.ObjSet Model.ActuationTable Model.PipelineTypes Model.Pipeline
     Proofs.ObjSetProofs Proofs.ActuationTableProofs Proofs.PipelineBase Proofs.PipelineAuth
     Proofs.PipelineEvents Proofs.PipelineMisc Corr.CorrPipeline
     Proofs.PipelineOrphansBase Proofs.PipelineOrphansSpec Proofs.PipelineOrphansPlan Proofs.PipelineOrphansRun
     Proofs.PipelineMonBase Proofs.PipelineMonC13 Proofs.PipelineMonC11 Proofs.PipelineOrderMon
     Proofs.PipelineMonC05a.
Import ListNotations.

Section C05.
  Variable sc : scenario.
  Variable c0 : cluster.
  Hypothesis HWF : WF sc c0.

  Notation pl := (plan_of sc c0).
  Notation t := (out_trace (run sc c0)).
  Notation pobjs := (found_in sc c0 (cand_of sc c0)).

  Lemma wf_nd : locals_nodup sc.
  Proof. destruct HWF as [W _]. exact W. Qed.

  (* ---- the plan ------------------------------------------------------------------------------- *)
  Lemma c05_prune_c0 cj : In (pobj_of_live cj) (pl_prune pl) -> fo c0 (c_id cj) = Some cj /\ In (c_id cj) (prev_of c0).
  Proof.
    intros H. destruct (bp_prune_valid sc (live_crds sc c0) (locals_of sc) pobjs cj H) as [X _].
    apply found_in_In in X. destruct X as [X1 X2]. split; [exact X2|].
    unfold cand_of in X1. apply (proj1 (sortn_In _ _)) in X1. apply (proj1 (diffn_In _ _ _)) in X1. tauto.
  Qed.

  Lemma c05_prune_live e : In e (map p_id (pl_prune pl)) -> exists ce, In (pobj_of_live ce) (pl_prune pl) /\ c_id ce = e.
  Proof.
    intros H. apply in_map_iff in H. destruct H as [p [<- Hp]].
    destruct (bp_anatomy sc (live_crds sc c0) (locals_of sc) pobjs) as [layers [cyc [_ [_ [_ [EP _]]]]]].
    pose proof Hp as Hp'. rewrite plan_of_eq, EP in Hp'. apply filter_In in Hp'. destruct Hp' as [Hp' _].
    unfold pruneA in Hp'. apply in_map_iff in Hp'. destruct Hp' as [c [<- _]].
    exists c. split; [exact Hp|reflexivity].
  Qed.

  Lemma c05_disj e : In e (map p_id (pl_prune pl)) -> ~ In e (apply_ids pl).
  Proof.
    intros H Ha.
    apply (bp_disj sc (live_crds sc c0) (locals_of sc) pobjs (locals_of_NoDup sc wf_nd) (pobjs_NoDup sc c0) (pobjs_disj sc c0) e Ha).
    apply in_map_iff in H. destruct H as [p [<- Hp]]. apply in_map.
    exact (bp_prune_sub sc (live_crds sc c0) (locals_of sc) pobjs p Hp).
  Qed.

  Lemma c05_local p l : In p (pl_apply pl) -> p_local p = Some l -> l_id l = p_id p.
  Proof.
    intros Hp E. destruct (bp_apply_is_local sc (live_crds sc c0) (locals_of sc) pobjs p Hp) as [l' [-> _]].
    cbn in E. injection E as <-. reflexivity.
  Qed.

  Lemma c05_prune_task e : o_prune (sc_opts sc) = true -> In e (map p_id (pl_prune pl)) ->
    exists k l, In (TPrune k l) (body_tasks sc pl) /\ In e (map p_id l).
  Proof.
    intros EP H. destruct (plan_layers sc c0 wf_nd) as [_ [_ B]].
    pose proof (proj2 (B e) H) as H1. apply in_map_iff in H1. destruct H1 as [p [Ep Hp]].
    apply in_concat in Hp. destruct Hp as [l [Hl Hpl]].
    assert (NE : pl_prune pl <> []) by (intros X; rewrite X in H; destruct H).
    destruct (body_tasks_prune sc pl l EP Hl NE) as [k Hk]. exists k, l. split; [exact Hk|].
    rewrite <- Ep. apply in_map. exact Hpl.
  Qed.

  (* ---- the start state ---------------------------------------------------------------------------- *)
  Lemma quiet_pre_tasks s : quiet s (pre_tasks sc c0 s).
  Proof.
    unfold pre_tasks. eapply quiet_trans; [|apply quiet_ev]. apply quiet_fold. intros; apply quiet_ev.
  Qed.

  Lemma start_Iv e ce s4 : fo c0 e = Some ce -> start_ok sc c0 s4 -> Iv e ce (pre_tasks sc c0 s4).
  Proof.
    intros Hce [C _ _ AB _ [s2 [E2 ET]]]. apply (Iv_quiet e ce s4 _ (quiet_pre_tasks s4)).
    destruct HWF as [_ [_ [W3 [W4 _]]]].
    destruct (register_spec sc pl s2 E2) as [_ [_ [_ [K3 V3]]]]. cbv zeta in K3, V3.
    constructor.
    - rewrite C. split.
      + apply W3. exact (find_obj_In _ _ _ Hce).
      + intros j cj Hj Eu. pose proof (W4 cj ce (find_obj_In _ _ _ Hj) (find_obj_In _ _ _ Hce) Eu) as X.
        rewrite (find_obj_id _ _ _ Hj), (find_obj_id _ _ _ Hce) in X. exact X.
    - rewrite ET. exact K3.
    - intros i u H. unfold tv in H. rewrite ET in H. fold (tv (register sc pl s2) i) in H. rewrite V3 in H.
      destruct (negb (o_destroy (sc_opts sc)) && negb (o_prune (sc_opts sc)) && memn i (map p_id (pl_prune_all pl)));
        [discriminate H|].
      destruct (o_prune (sc_opts sc) && memn i (map p_id (pl_prune pl))); [discriminate H|].
      destruct (memn i (apply_ids pl)); discriminate H.
    - rewrite AB. intros [].
  Qed.

  (* ---- every prune object is settled at the end of a run without error ------------------------------ *)
  Lemma c05_settled e :
    is_dry (o_dry (sc_opts sc)) = false -> has_error t = false -> o_prune (sc_opts sc) = true ->
    In e (map p_id (pl_prune pl)) ->
    (exists ce, find_obj (objs c0) e = Some ce /\ c_keep ce = true) \/
    (exists u p ok m st, In (IReq (RDelete e u p) ok m st) (r_tr (run_state sc c0))) \/
    In e (prev_of (out_final (run sc c0))).
  Proof.
    intros ED HE EP He.
    destruct (c05_prune_live e He) as [ce [Hin Eid]].
    destruct (c05_prune_c0 ce Hin) as [Hce Hprev]. rewrite Eid in Hce, Hprev.
    destruct (c_keep ce) eqn:EK; [left; exists ce; split; [exact Hce|exact EK]|right].
    assert (NOERR : ~ In (IEv EError) (r_tr (run_state sc c0))).
    { intros X. rewrite (has_error_state sc c0 X) in HE. discriminate HE. }
    destruct (shape_cases sc c0) as [E|[s4 [SO [_ [E|[prev [PV E]]]]]]].
    - rewrite E in HE. discriminate HE.
    - exfalso. apply NOERR. rewrite E. left. reflexivity.
    - (* the task list was run *)
      assert (UI : forall j cj, fo c0 j = Some cj -> c_uid cj = c_uid ce -> j = e).
      { intros j cj Hj Eu. destruct HWF as [_ [_ [_ [W4 _]]]].
        pose proof (W4 cj ce (find_obj_In _ _ _ Hj) (find_obj_In _ _ _ Hce) Eu) as X.
        rewrite (find_obj_id _ _ _ Hj), (find_obj_id _ _ _ Hce) in X. exact X. }
      assert (PC : forall cj, In (pobj_of_live cj) (pl_prune pl) -> fo c0 (c_id cj) = Some cj)
        by (intros cj Hcj; apply (c05_prune_c0 cj Hcj)).
      pose proof (k_run_tasks sc c0 pl (locals_of sc) e ce ED Hce EK (c05_disj e He) UI PC c05_local prev
                    (body_tasks sc pl) (task_ok_body sc (live_crds sc c0) (locals_of sc) pobjs) (body_tasks_no_set sc pl)
                    (pre_tasks sc c0 s4) (start_Iv e ce s4 Hce SO)) as [I1 [_ D1]].
      rewrite tasks_of_body in E.
      destruct (run_tasks_app sc pl (locals_of sc) prev (body_tasks sc pl) [TInvSet] (pre_tasks sc c0 s4)) as [[X1 X2]|X].
      { exfalso. apply NOERR. rewrite E, X2. exact X1. }
      rewrite X in E. clear X.
      set (s' := run_tasks sc pl (locals_of sc) prev (pre_tasks sc c0 s4) (body_tasks sc pl)) in *.
      cbn [run_tasks] in E.
      pose proof (n_run_task sc pl (locals_of sc) prev s' TInvSet) as [_ [l [El _]]].
      destruct (run_task sc pl (locals_of sc) prev s' TInvSet) as [s1 ok] eqn:ERT. cbn [fst] in El.
      destruct ok; cbn [negb] in E; [|exfalso; apply NOERR; rewrite E; left; reflexivity].
      destruct (r_abort s1); [exfalso; apply NOERR; rewrite E; left; reflexivity|].
      assert (NE' : ~ In (IEv EError) (r_tr s')).
      { intros Y. apply NOERR. rewrite E, El. apply in_or_app. right. exact Y. }
      pose proof (D1 NE' (c05_prune_task e EP He)) as DN.
      destruct PV as [PV|PV]; subst prev.
      { exfalso. unfold run_task in ERT. cbv zeta in ERT. cbn [inv_set_task] in ERT. discriminate ERT. }
      pose proof (final_step sc pl (locals_of sc) e ce ED (prev_of c0) s' I1 DN Hprev) as FS.
      rewrite ERT in FS. cbn [fst snd] in FS. destruct (FS eq_refl) as [RQ|[L [EL HL]]].
      + left. rewrite E. exact RQ.
      + right. rewrite out_final_run, E. unfold prev_of at 1. cbn [norm_cluster inv]. unfold stored. rewrite EL.
        cbn [option_map]. apply sortn_In. exact HL.
  Qed.

  (* ---- the inventory conjunct ------------------------------------------------------------------------ *)
  Theorem monitor_C05_inventory : mon_C05_inventory sc c0 (run sc c0) = true.
  Proof.
    unfold mon_C05_inventory. cbv zeta.
    destruct (has_error t) eqn:HE; [reflexivity|].
    destruct (is_dry (o_dry (sc_opts sc))) eqn:ED; [reflexivity|]. cbn [orb].
    apply forallb_forall. intros e He.
    destruct (o_prune (sc_opts sc)) eqn:EP; [|cbn [negb]; rewrite orb_true_r; reflexivity].
    destruct (c05_settled e ED HE EP He) as [[ce [Hce EK]]|[[u [p [ok [m [st H]]]]]|H]].
    - rewrite Hce, EK. rewrite orb_true_r. reflexivity.
    - assert (X : existsb (fun x => match fst x with RDelete e' _ _ => Nat.eqb e e' | _ => false end) (reqs t) = true).
      { apply existsb_exists. exists (RDelete e u p, ok). split; [|cbn; apply Nat.eqb_refl].
        unfold reqs. apply in_flat_map. exists (IReq (RDelete e u p) ok m st). split; [|left; reflexivity].
        rewrite out_trace_run. apply in_or_app. left. apply (proj1 (in_rev _ _)). exact H. }
      rewrite X. reflexivity.
    - apply (proj2 (memn_In _ _)) in H. rewrite H. rewrite !orb_true_r. reflexivity.
  Qed.
End C05.

Theorem monitor_C05 : forall sc c0, WF sc c0 -> mon_C05 sc c0 (run sc c0) = true.
Proof.
  intros sc c0 W. rewrite mon_C05_split, (mon_C05_order_holds sc c0), (monitor_C05_inventory sc c0 W). reflexivity.
Qed.

(* ---- the UID clause of WF is needed -------------------------------------------------------------
   Two objects of the initial cluster share a UID (outside WF; generated only in the
   C02/C03 profiles): 1 is applied, 2 is a prune object.  The pruner's alias filter
   spares 2 and abandons it, so 2 leaves the stored inventory while it is still live
   and annotated as owned: the inventory conjunct of mon_C05 is false.  Every
   other clause of WF holds. *)
Definition c05_alias_sc : scenario :=
  mkSc [mkU KPlain None None; mkU KPlain None None; mkU KPlain None None] None
       [mkL 1 [] false false false 1]
       (mkO false true PAdoptAll DNone VSkipInvalid false true true false PropBackground false)
       (mkE [] [mkW [mkS 1 SCurrent true 0%N 2%Z] WTimeout] CNever None).
Definition c05_alias_c0 : cluster :=
  mkCl [mkC 1 5%N OOurs false [] false 1 None; mkC 2 5%N OOurs false [] false 1 None] (Some [1; 2]) 8%N.

Lemma monitor_C05_needs_uid_inj : exists sc c0,
  (o_destroy (sc_opts sc) = false -> NoDup (map l_id (sc_local sc))) /\
  NoDup (map c_id (objs c0)) /\
  (forall c, In c (objs c0) -> (c_uid c < next_uid c0)%N) /\
  (forall n l, sc_inv_ns sc = Some n -> inv c0 = Some l -> In n (map c_id (objs c0)) \/ In n l) /\
  (o_destroy (sc_opts sc) = true -> o_prune (sc_opts sc) = true) /\
  wf_fin_b sc c0 = true /\
  mon_C05_order sc c0 (run sc c0) = true /\ mon_C05 sc c0 (run sc c0) = false.
Proof.
  exists c05_alias_sc, c05_alias_c0. cbn [c05_alias_sc c05_alias_c0 sc_opts sc_local sc_inv_ns o_destroy o_prune objs inv next_uid map l_id c_id].
  split; [intros _; constructor; [intros []|constructor]|].
  split; [constructor; [intros [H|[]]; discriminate H|constructor; [intros []|constructor]]|].
  split; [intros c [<-|[<-|[]]]; reflexivity|].
  split; [intros n l H; discriminate H|].
  split; [intros H; discriminate H|].
  split; [vm_compute; reflexivity|].
  split; vm_compute; reflexivity.
Qed.

(* non-vacuity: a well-formed destroy run over namespace 0 and object 2 inside it, the delete
   of 2 rejected: 0 is not deleted and stays in the stored inventory (fourth disjunct of the
   conjunct), 2 is the target of a (rejected) delete request (first disjunct) *)
Definition c05_ex_sc : scenario :=
  mkSc [mkU KNs None None; mkU KPlain None None; mkU KPlain (Some 0) None] None []
       (mkO true true PAdoptAll DNone VSkipInvalid false true true false PropBackground false)
       (mkE [FDelete 2] [mkW [mkS 2 SNotFound false 0%N 0%Z] WTimeout; mkW [mkS 0 SNotFound false 0%N 0%Z] WTimeout] CNever None).
Definition c05_ex_c0 : cluster :=
  mkCl [mkC 0 5%N OOurs false [] false 1 None; mkC 2 6%N OOurs false [] false 1 None] (Some [0; 2]) 8%N.

Lemma c05_ex_WF : WF c05_ex_sc c05_ex_c0.
Proof. apply wf_b_spec. vm_compute. reflexivity. Qed.

Example c05_ex_run :
  map p_id (pl_prune (plan_of c05_ex_sc c05_ex_c0)) = [0; 2] /\
  has_error (out_trace (run c05_ex_sc c05_ex_c0)) = false /\
  filter (fun x => match fst x with RDelete _ _ _ => true | _ => false end) (reqs (out_trace (run c05_ex_sc c05_ex_c0)))
    = [(RDelete 2 6%N PropBackground, false)] /\
  prev_of (out_final (run c05_ex_sc c05_ex_c0)) = [0; 2] /\
  mon_C05 c05_ex_sc c05_ex_c0 (run c05_ex_sc c05_ex_c0) = true.
Proof.
  split; [vm_compute; reflexivity|]. split; [vm_compute; reflexivity|]. split; [vm_compute; reflexivity|].
  split; [vm_compute; reflexivity|]. exact (monitor_C05 _ _ c05_ex_WF).
Qed.

Print Assumptions monitor_C05_inventory.
Print Assumptions monitor_C05.
Print Assumptions monitor_C05_needs_uid_inj.
