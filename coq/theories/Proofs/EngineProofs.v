(* Lemmas about the polling engine model (C17). *)
From Coq Require Import List Bool Arith ZArith String Lia.
From CliUtils Require Import Model.Engine.
Import ListNotations.

(* ---- induction principle for the rose tree ---------------------------- *)
Section RSInd.
  Variable P : rstatus -> Prop.
  Hypothesis H : forall i s m g e l, Forall P l -> P (RS i s m g e l).
  Fixpoint rstatus_ind' (r : rstatus) : P r :=
    match r with
    | RS i s m g e l =>
        H i s m g e l
          ((fix go (l : list rstatus) : Forall P l :=
              match l with
              | [] => Forall_nil P
              | x :: t => Forall_cons x (rstatus_ind' x) (go t)
              end) l)
    end.
End RSInd.

Lemma status_eqb_eq : forall a b, status_eqb a b = true <-> a = b.
Proof. intros a b; destruct a, b; simpl; split; intros H; try reflexivity; discriminate. Qed.

Lemma status_eqb_refl : forall a, status_eqb a a = true.
Proof. intros a; apply status_eqb_eq; reflexivity. Qed.

Lemma err_equal_eq : forall a b, err_equal a b = true <-> a = b.
Proof.
  intros [x|] [y|]; simpl; split; intros H; try reflexivity; try discriminate.
  - apply String.eqb_eq in H. now subst.
  - inversion H; subst. apply String.eqb_refl.
Qed.

Lemma rs_equal_unfold : forall i s m g e l i' s' m' g' e' l',
  rs_equal (RS i s m g e l) (RS i' s' m' g' e' l') =
  (Nat.eqb i i' && status_eqb s s' && String.eqb m m' && Z.eqb (gen_of g) (gen_of g')
   && err_equal e e' && all2 rs_equal l l').
Proof.
  intros i s m g e l i' s' m' g' e' l'. simpl. f_equal.
  revert l'. induction l as [|x t IH]; intros [|y t']; simpl; try reflexivity.
  now rewrite IH.
Qed.

Lemma all2_canon : forall l l',
  Forall (fun a => forall b, rs_equal a b = true <-> canon a = canon b) l ->
  (all2 rs_equal l l' = true <-> map canon l = map canon l').
Proof.
  intros l. induction l as [|x t IH]; intros [|y t'] HF; simpl; split; intros H;
    try reflexivity; try discriminate.
  - inversion HF as [|? ? Hx Ht]; subst. apply andb_true_iff in H as [H1 H2].
    apply Hx in H1. apply (IH t' Ht) in H2. now rewrite H1, H2.
  - inversion HF as [|? ? Hx Ht]; subst. inversion H as [[H1 H2]].
    apply andb_true_iff; split; [now apply Hx | now apply (IH t' Ht)].
Qed.

(* ResourceStatusEqual compares exactly the canonical forms *)
Lemma rs_equal_canon : forall a b, rs_equal a b = true <-> canon a = canon b.
Proof.
  intros a. induction a as [i s m g e l IH] using rstatus_ind'.
  intros [i' s' m' g' e' l']. rewrite rs_equal_unfold. simpl canon.
  pose proof (all2_canon l l' IH) as HL.
  split; intros H.
  - apply andb_true_iff in H as [H Hl]. apply andb_true_iff in H as [H He].
    apply andb_true_iff in H as [H Hg]. apply andb_true_iff in H as [H Hm].
    apply andb_true_iff in H as [Hi Hs].
    apply Nat.eqb_eq in Hi. apply status_eqb_eq in Hs. apply String.eqb_eq in Hm.
    apply Z.eqb_eq in Hg. apply err_equal_eq in He. apply HL in Hl.
    subst. now rewrite Hg, Hl.
  - inversion H as [[Hi Hs Hm Hg He Hl]]. subst.
    rewrite Nat.eqb_refl, status_eqb_refl, String.eqb_refl, Hg, Z.eqb_refl. simpl.
    apply andb_true_iff; split; [now apply err_equal_eq | now apply HL].
Qed.

Lemma rs_equal_refl : forall a, rs_equal a a = true.
Proof. intros a; now apply rs_equal_canon. Qed.

Lemma rs_equal_sym : forall a b, rs_equal a b = rs_equal b a.
Proof.
  intros a b. destruct (rs_equal a b) eqn:E1, (rs_equal b a) eqn:E2; try reflexivity.
  - apply rs_equal_canon in E1. symmetry in E1. apply rs_equal_canon in E1. congruence.
  - apply rs_equal_canon in E2. symmetry in E2. apply rs_equal_canon in E2. congruence.
Qed.

Lemma rs_equal_trans : forall a b c, rs_equal a b = true -> rs_equal b c = true -> rs_equal a c = true.
Proof.
  intros a b c H1 H2. apply rs_equal_canon. apply rs_equal_canon in H1, H2. congruence.
Qed.

Lemma all2_Forall2 : forall (l l' : list rstatus),
  all2 rs_equal l l' = true <-> Forall2 (fun x y => rs_equal x y = true) l l'.
Proof.
  intros l. induction l as [|x t IH]; intros [|y t']; simpl; split; intros H;
    try constructor; try discriminate; try (inversion H; fail).
  - now apply andb_true_iff in H as [H _].
  - apply IH. now apply andb_true_iff in H as [_ H].
  - inversion H; subst. apply andb_true_iff; split; [assumption | now apply IH].
Qed.

(* field-by-field reading of ResourceStatusEqual *)
Lemma rs_equal_fields : forall a b,
  rs_equal a b = true <->
  rs_id a = rs_id b /\ rs_status a = rs_status b /\ rs_msg a = rs_msg b /\
  get_generation a = get_generation b /\ rs_err a = rs_err b /\
  Forall2 (fun x y => rs_equal x y = true) (rs_kids a) (rs_kids b).
Proof.
  intros [i s m g e l] [i' s' m' g' e' l']. rewrite rs_equal_unfold.
  unfold get_generation. simpl. rewrite <- all2_Forall2.
  repeat rewrite andb_true_iff.
  rewrite Nat.eqb_eq, status_eqb_eq, String.eqb_eq, Z.eqb_eq, err_equal_eq. tauto.
Qed.

(* ---- last_emitted ------------------------------------------------------ *)
Definition is_upd (it : item) : Prop := exists r, it = Upd r.

Lemma last_emitted_snoc : forall tr it j,
  last_emitted (tr ++ [it]) j =
  match it with
  | Upd r => if Nat.eqb (rs_id r) j then Some r else last_emitted tr j
  | _ => last_emitted tr j
  end.
Proof.
  intros tr it j. unfold last_emitted. rewrite fold_left_app. simpl.
  destruct it as [r| |]; simpl; try reflexivity.
Qed.

Lemma last_emitted_app_nomatch : forall evs tr j,
  filter (upd_for j) evs = [] -> last_emitted (tr ++ evs) j = last_emitted tr j.
Proof.
  intros evs. induction evs as [|x t IH]; intros tr j H.
  - now rewrite app_nil_r.
  - simpl in H. destruct (upd_for j x) eqn:E; [discriminate|].
    replace (tr ++ x :: t) with ((tr ++ [x]) ++ t) by (rewrite <- app_assoc; reflexivity).
    rewrite (IH _ _ H). rewrite last_emitted_snoc.
    destruct x as [r| |]; try reflexivity. simpl in E. now rewrite E.
Qed.

Definition prev_ok (prev : pmap) (tr : list item) : Prop :=
  forall j, pm_get prev j = last_emitted tr j.

Definition wf_on (ids : list nat) (p : poll) : Prop :=
  forall i r, In i ids -> p_read p i = RStatus r -> rs_id r = i.

(* every update in evs differs from the last one emitted before it *)
Fixpoint valid_from (tr evs : list item) : Prop :=
  match evs with
  | [] => True
  | x :: t =>
      match x with
      | Upd r => changed (last_emitted tr (rs_id r)) r = true
      | _ => True
      end /\ valid_from (tr ++ [x]) t
  end.

Lemma valid_from_app : forall a tr b,
  valid_from tr a -> valid_from (tr ++ a) b -> valid_from tr (a ++ b).
Proof.
  intros a. induction a as [|x t IH]; intros tr b Ha Hb; simpl in *.
  - now rewrite app_nil_r in Hb.
  - destruct Ha as [Hx Ht]. split; [exact Hx|].
    apply IH; [exact Ht|]. now rewrite <- app_assoc.
Qed.

Lemma valid_from_split : forall evs tr pre r post,
  valid_from tr evs -> evs = pre ++ Upd r :: post ->
  changed (last_emitted (tr ++ pre) (rs_id r)) r = true.
Proof.
  intros evs. induction evs as [|x t IH]; intros tr pre r post Hv He.
  - destruct pre; discriminate.
  - destruct pre as [|y pre'].
    + simpl in He. inversion He; subst. rewrite app_nil_r. simpl in Hv. tauto.
    + simpl in He. inversion He; subst. simpl in Hv. destruct Hv as [_ Hv].
      specialize (IH _ _ _ _ Hv eq_refl). now rewrite <- app_assoc in IH.
Qed.

Lemma prev_ok_set : forall prev tr i r,
  prev_ok prev tr -> rs_id r = i -> prev_ok (pm_set prev i r) (tr ++ [Upd r]).
Proof.
  intros prev tr i r H Hi j. rewrite last_emitted_snoc. simpl. rewrite Hi.
  destruct (Nat.eqb i j); [reflexivity | apply H].
Qed.

(* safety of one round, for any cancellation point and any read errors *)
Lemma poll_ids_safe : forall p ids k prev tr prev' evs out,
  wf_on ids p -> prev_ok prev tr -> poll_ids p k ids prev = (prev', evs, out) ->
  prev_ok prev' (tr ++ evs) /\ Forall is_upd evs /\ valid_from tr evs.
Proof.
  intros p ids. induction ids as [|i rest IH]; intros k prev tr prev' evs out Hwf Hok Hp.
  - simpl in Hp. inversion Hp; subst. rewrite app_nil_r. repeat split; auto.
  - assert (Hwf' : wf_on rest p) by (intros x r Hx; apply Hwf; now right).
    simpl in Hp. destruct (ctx_done p k).
    { inversion Hp; subst. rewrite app_nil_r. repeat split; auto. }
    destruct (p_read p i) as [r|e] eqn:Hr.
    2:{ inversion Hp; subst. rewrite app_nil_r. repeat split; auto. }
    pose proof (Hwf _ _ (or_introl eq_refl) Hr) as Hid.
    destruct (is_updated prev r) eqn:Hu.
    + destruct (poll_ids p (S k) rest (pm_set prev i r)) as [[pv ev] o] eqn:Hrec.
      inversion Hp; subst prev' evs out.
      destruct (IH _ _ (tr ++ [Upd r]) _ _ _ Hwf' (prev_ok_set _ _ _ _ Hok Hid) Hrec)
        as [H1 [H2 H3]].
      rewrite <- app_assoc in H1. split; [|split].
      * exact H1.
      * constructor; [now exists r | exact H2].
      * simpl. split; [|exact H3].
        unfold changed. rewrite <- (Hok (rs_id r)). exact Hu.
    + apply (IH _ _ tr _ _ _ Hwf' Hok Hp).
Qed.

(* ---- complete rounds --------------------------------------------------- *)
Definition all_status (p : poll) (ids : list nat) : Prop :=
  forall i, In i ids -> exists r, p_read p i = RStatus r /\ rs_id r = i.

Definition clean (ids : list nat) (p : poll) : Prop :=
  p_sync p = None /\ p_cancel p = None /\ all_status p ids.

Definition expected (p : poll) (old : option rstatus) (j : nat) : list item :=
  match p_read p j with
  | RStatus r => if changed old r then [Upd r] else []
  | RErr _ => []
  end.

Lemma existsb_eqb_In : forall j ids, existsb (Nat.eqb j) ids = true <-> In j ids.
Proof.
  intros j ids. rewrite existsb_exists. split.
  - intros [x [Hx He]]. apply Nat.eqb_eq in He. now subst.
  - intros H. exists j. split; [exact H | apply Nat.eqb_refl].
Qed.

Lemma poll_ids_untouched : forall p ids k prev prev' evs out i,
  ~ In i ids -> poll_ids p k ids prev = (prev', evs, out) -> pm_get prev' i = pm_get prev i.
Proof.
  intros p ids. induction ids as [|x t IH]; intros k prev prev' evs out i Hnin H1; simpl in H1.
  - now inversion H1.
  - destruct (ctx_done p k); [now inversion H1|].
    destruct (p_read p x) as [r|e]; [|now inversion H1].
    destruct (is_updated prev r).
    + destruct (poll_ids p (S k) t (pm_set prev x r)) as [[a b] c] eqn:E.
      inversion H1; subst. rewrite (IH _ _ _ _ _ i (fun H => Hnin (or_intror H)) E).
      simpl. destruct (Nat.eqb x i) eqn:Exi; [|reflexivity].
      apply Nat.eqb_eq in Exi. exfalso. apply Hnin. now left.
    + apply (IH _ _ _ _ _ i (fun H => Hnin (or_intror H)) H1).
Qed.

Lemma poll_ids_complete : forall p ids k prev,
  p_cancel p = None -> all_status p ids ->
  exists prev' evs,
    poll_ids p k ids prev = (prev', evs, Continue) /\
    (forall j, filter (upd_for j) evs =
               if existsb (Nat.eqb j) ids then expected p (pm_get prev j) j else []) /\
    (forall j, In j ids -> exists r old, p_read p j = RStatus r /\
                                         pm_get prev' j = Some old /\ rs_equal r old = true) /\
    (forall j, pm_get prev j <> None -> pm_get prev' j <> None).
Proof.
  intros p ids. induction ids as [|i rest IH]; intros k prev Hc Hall.
  - exists prev, []. simpl. repeat split; auto. intros j [].
  - simpl. unfold ctx_done. rewrite Hc.
    destruct (Hall i (or_introl eq_refl)) as [r [Hr Hid]]. rewrite Hr.
    assert (Hall' : all_status p rest) by (intros x Hx; apply Hall; now right).
    assert (Hupd : is_updated prev r = changed (pm_get prev i) r)
      by (unfold is_updated; now rewrite Hid).
    rewrite Hupd.
    destruct (changed (pm_get prev i) r) eqn:Hch.
    + (* changed or first time: emitted, recorded *)
      destruct (IH (S k) (pm_set prev i r) Hc Hall') as [pv [ev [H1 [H2 [H3 H4]]]]].
      rewrite H1. exists pv, (Upd r :: ev). split; [reflexivity|]. split; [|split].
      * intros j. simpl. rewrite Hid. rewrite H2. rewrite (Nat.eqb_sym i j).
        destruct (Nat.eqb j i) eqn:Eji; simpl.
        -- apply Nat.eqb_eq in Eji; subst j. unfold expected. rewrite Hr, Hch.
           rewrite Nat.eqb_refl. simpl. rewrite rs_equal_refl. simpl.
           now destruct (existsb (Nat.eqb i) rest).
        -- rewrite (Nat.eqb_sym i j), Eji. reflexivity.
      * intros j [Hj|Hj]; [subst j | now apply H3].
        destruct (in_dec Nat.eq_dec i rest) as [Hin|Hnin]; [now apply H3|].
        exists r, r. rewrite (poll_ids_untouched _ _ _ _ _ _ _ i Hnin H1). simpl.
        rewrite Nat.eqb_refl. repeat split; auto. apply rs_equal_refl.
      * intros j Hj. apply H4. simpl. destruct (Nat.eqb i j); [discriminate | exact Hj].
    + (* unchanged: nothing emitted *)
      destruct (pm_get prev i) as [old|] eqn:Hg; [|discriminate]. simpl in Hch.
      apply negb_false_iff in Hch.
      destruct (IH (S k) prev Hc Hall') as [pv [ev [H1 [H2 [H3 H4]]]]].
      exists pv, ev. split; [exact H1|]. split; [|split].
      * intros j. rewrite H2. destruct (Nat.eqb j i) eqn:Eji; simpl; [|reflexivity].
        apply Nat.eqb_eq in Eji; subst j. unfold expected. rewrite Hr, Hg. simpl. rewrite Hch. simpl.
        now destruct (existsb (Nat.eqb i) rest).
      * intros j [Hj|Hj]; [subst j | now apply H3].
        destruct (in_dec Nat.eq_dec i rest) as [Hin|Hnin]; [now apply H3|].
        exists r, old. rewrite (poll_ids_untouched _ _ _ _ _ _ _ i Hnin H1). auto.
      * exact H4.
Qed.

(* ---- whole runs -------------------------------------------------------- *)
Definition grammar (tr : list item) : Prop :=
  exists evs, Forall is_upd evs /\
    (tr = evs ++ [Close] \/ exists e, is_ctx_err e = false /\ tr = evs ++ [Err e; Close]).

Lemma grammar_prepend : forall a tr, Forall is_upd a -> grammar tr -> grammar (a ++ tr).
Proof.
  intros a tr Ha [evs [He [H|[e [Hc H]]]]]; subst tr; exists (a ++ evs); rewrite app_assoc;
    (split; [apply Forall_app; now split|]); [now left | right; now exists e].
Qed.

Lemma poll_ids_stoperr : forall p ids k prev prev' evs e,
  poll_ids p k ids prev = (prev', evs, StopErr e) ->
  is_ctx_err e = false /\ exists i, In i ids /\ p_read p i = RErr e.
Proof.
  intros p ids. induction ids as [|i rest IH]; intros k prev prev' evs e H; simpl in H.
  - inversion H.
  - destruct (ctx_done p k); [inversion H|].
    destruct (p_read p i) as [r|e0] eqn:Hr.
    + destruct (is_updated prev r).
      * destruct (poll_ids p (S k) rest (pm_set prev i r)) as [[a b] c] eqn:E.
        inversion H; subst. destruct (IH _ _ _ _ _ E) as [H1 [x [Hx Hx']]].
        split; [exact H1 | exists x; split; [now right | exact Hx']].
      * destruct (IH _ _ _ _ _ H) as [H1 [x [Hx Hx']]].
        split; [exact H1 | exists x; split; [now right | exact Hx']].
    + destruct (is_ctx_err e0) eqn:Hc; inversion H; subst.
      split; [exact Hc | exists i; split; [now left | exact Hr]].
Qed.

Lemma poll_step_safe : forall ids p prev tr prev' evs out,
  wf_on ids p -> prev_ok prev tr -> poll_step ids prev p = (prev', evs, out) ->
  prev_ok prev' (tr ++ evs) /\ Forall is_upd evs /\ valid_from tr evs /\
  (forall e, out = StopErr e -> is_ctx_err e = false).
Proof.
  intros ids p prev tr prev' evs out Hwf Hok H. unfold poll_step in H.
  destruct (p_sync p) as [e|] eqn:Hs.
  - inversion H; subst. rewrite app_nil_r. repeat split; auto.
    intros e0 He0. destruct (is_ctx_err e) eqn:Hc; inversion He0; now subst.
  - destruct (poll_ids_safe _ _ _ _ _ _ _ _ Hwf Hok H) as [H1 [H2 H3]].
    repeat split; auto. intros e He; subst out. now apply poll_ids_stoperr in H.
Qed.

Lemma valid_tail : forall tr l, (forall x, In x l -> ~ is_upd x) -> valid_from tr l.
Proof.
  intros tr l. revert tr. induction l as [|x t IH]; intros tr H; simpl; [exact I|].
  split.
  - destruct x as [r| |]; auto. exfalso. apply (H (Upd r)); [now left | now exists r].
  - apply IH. intros y Hy. apply H. now right.
Qed.

Lemma run_polls_safe : forall ids polls prev tr0,
  (forall p, In p polls -> wf_on ids p) -> prev_ok prev tr0 ->
  valid_from tr0 (run_polls ids prev polls) /\ grammar (run_polls ids prev polls).
Proof.
  intros ids polls. induction polls as [|p rest IH]; intros prev tr0 Hwf Hok.
  - simpl. split; [tauto|]. exists []. split; [constructor | now left].
  - simpl. destruct (poll_step ids prev p) as [[pv ev] out] eqn:Hp.
    destruct (poll_step_safe _ _ _ _ _ _ _ (Hwf p (or_introl eq_refl)) Hok Hp) as [H1 [H2 [H3 H4]]].
    assert (Hclose : valid_from tr0 (ev ++ [Close]) /\ grammar (ev ++ [Close])).
    { split.
      - apply valid_from_app; [exact H3 | simpl; tauto].
      - exists ev. split; [exact H2 | now left]. }
    destruct out as [| |e].
    + destruct (p_cancel p); [exact Hclose|].
      destruct (IH pv (tr0 ++ ev) (fun q Hq => Hwf q (or_intror Hq)) H1) as [Hv Hg].
      split; [now apply valid_from_app | now apply grammar_prepend].
    + exact Hclose.
    + split.
      * apply valid_from_app; [exact H3 | simpl; tauto].
      * exists ev. split; [exact H2|]. right. exists e. split; [now apply H4 | reflexivity].
Qed.

(* no fatal error anywhere: whatever is cancelled wherever, no error event *)
Definition no_fatal (ids : list nat) (p : poll) : Prop :=
  (forall e, p_sync p = Some e -> is_ctx_err e = true) /\
  (forall i e, In i ids -> p_read p i = RErr e -> is_ctx_err e = true).

Lemma poll_step_all_upd : forall ids p prev prev' evs out,
  poll_step ids prev p = (prev', evs, out) -> Forall is_upd evs.
Proof.
  intros ids p prev prev' evs out H. unfold poll_step in H.
  destruct (p_sync p); [inversion H; constructor|].
  revert H. generalize 0. revert prev prev' evs out.
  induction ids as [|i rest IH]; intros prev prev' evs out k H; simpl in H.
  - inversion H; constructor.
  - destruct (ctx_done p k); [inversion H; constructor|].
    destruct (p_read p i) as [r|e]; [|inversion H; constructor].
    destruct (is_updated prev r).
    + destruct (poll_ids p (S k) rest (pm_set prev i r)) as [[a b] c] eqn:E.
      inversion H; subst. constructor; [now exists r | apply (IH _ _ _ _ _ E)].
    + apply (IH _ _ _ _ _ H).
Qed.

Lemma run_polls_no_fatal : forall ids polls prev,
  (forall p, In p polls -> no_fatal ids p) ->
  exists evs, Forall is_upd evs /\ run_polls ids prev polls = evs ++ [Close].
Proof.
  intros ids polls. induction polls as [|p rest IH]; intros prev Hnf.
  - exists []. split; [constructor | reflexivity].
  - simpl. destruct (poll_step ids prev p) as [[pv ev] out] eqn:Hp.
    pose proof (poll_step_all_upd _ _ _ _ _ _ Hp) as Hu.
    destruct (Hnf p (or_introl eq_refl)) as [Hs Hr].
    destruct out as [| |e].
    + destruct (p_cancel p); [exists ev; now split|].
      destruct (IH pv (fun q Hq => Hnf q (or_intror Hq))) as [evs [H1 H2]].
      exists (ev ++ evs). split; [apply Forall_app; now split|]. now rewrite H2, app_assoc.
    + exists ev; now split.
    + exfalso. unfold poll_step in Hp. destruct (p_sync p) as [e0|] eqn:Hs0.
      * specialize (Hs e0 eq_refl). rewrite Hs in Hp. inversion Hp.
      * apply poll_ids_stoperr in Hp as [Hc [i [Hi Hi']]].
        rewrite (Hr _ _ Hi Hi') in Hc. discriminate.
Qed.

(* clean rounds continue *)
Lemma poll_step_clean : forall ids p prev,
  clean ids p ->
  exists prev' evs,
    poll_step ids prev p = (prev', evs, Continue) /\
    (forall j, filter (upd_for j) evs =
               if existsb (Nat.eqb j) ids then expected p (pm_get prev j) j else []) /\
    (forall j, In j ids -> exists r old, p_read p j = RStatus r /\
                                         pm_get prev' j = Some old /\ rs_equal r old = true) /\
    (forall j, pm_get prev j <> None -> pm_get prev' j <> None).
Proof.
  intros ids p prev [Hs [Hc Ha]]. unfold poll_step. rewrite Hs.
  apply poll_ids_complete; assumption.
Qed.

Lemma clean_wf_on : forall ids p, clean ids p -> wf_on ids p.
Proof.
  intros ids p [_ [_ Ha]] i r Hi Hr. destruct (Ha i Hi) as [r' [Hr' Hid]].
  rewrite Hr in Hr'. inversion Hr'; now subst.
Qed.

Lemma run_clean_prefix : forall ids ps prev tr0,
  Forall (clean ids) ps -> prev_ok prev tr0 ->
  exists prev' tr,
    (forall rest, run_polls ids prev (ps ++ rest) = tr ++ run_polls ids prev' rest) /\
    Forall is_upd tr /\ prev_ok prev' (tr0 ++ tr) /\
    (forall j, pm_get prev j <> None -> pm_get prev' j <> None) /\
    (ps <> [] -> forall j, In j ids -> pm_get prev' j <> None).
Proof.
  intros ids ps. induction ps as [|p t IH]; intros prev tr0 Hcl Hok.
  - exists prev, []. rewrite app_nil_r. repeat split; auto; try (intros H; now contradiction H).
  - inversion Hcl as [|? ? Hp Ht]; subst.
    destruct (poll_step_clean ids p prev Hp) as [pv [ev [H1 [H2 [H3 H4]]]]].
    destruct (poll_step_safe _ _ _ _ _ _ _ (clean_wf_on _ _ Hp) Hok H1) as [S1 [S2 _]].
    destruct (IH pv (tr0 ++ ev) Ht S1) as [pv' [tr [I1 [I2 [I3 [I4 I5]]]]]].
    exists pv', (ev ++ tr). split; [|split; [|split; [|split]]].
    + intros rest. simpl. rewrite H1. destruct Hp as [_ [Hc _]]. rewrite Hc.
      rewrite I1. now rewrite app_assoc.
    + apply Forall_app; now split.
    + now rewrite app_assoc.
    + intros j Hj. apply I4, H4, Hj.
    + intros _ j Hj. apply I4. destruct (H3 j Hj) as [r [old [_ [Hg _]]]]. rewrite Hg. discriminate.
Qed.

Lemma prev_ok_nil : prev_ok [] [].
Proof. intros j. reflexivity. Qed.

(* the change-detection rule for round number (length ps) *)
Lemma emit_rule : forall ids ps p,
  Forall (clean ids) ps -> clean ids p ->
  exists tr evs,
    run_polls ids [] ps = tr ++ [Close] /\
    run_polls ids [] (ps ++ [p]) = tr ++ evs ++ [Close] /\
    (forall rest, exists tl, run_polls ids [] (ps ++ p :: rest) = tr ++ evs ++ tl) /\
    Forall is_upd tr /\ Forall is_upd evs /\
    (forall j, filter (upd_for j) evs =
               if existsb (Nat.eqb j) ids then expected p (last_emitted tr j) j else []) /\
    (ps <> [] -> forall j, In j ids -> last_emitted tr j <> None) /\
    (forall j, In j ids -> exists r old, p_read p j = RStatus r /\
        last_emitted (tr ++ evs) j = Some old /\ rs_equal r old = true).
Proof.
  intros ids ps p Hps Hp.
  destruct (run_clean_prefix ids ps [] [] Hps prev_ok_nil) as [pv [tr [R1 [R2 [R3 [_ R5]]]]]].
  simpl in R3.
  destruct (poll_step_clean ids p pv Hp) as [pv' [ev [H1 [H2 [H3 _]]]]].
  destruct (poll_step_safe _ _ _ _ _ _ _ (clean_wf_on _ _ Hp) R3 H1) as [S1 [S2 _]].
  assert (Hc : p_cancel p = None) by (destruct Hp as [_ [Hc _]]; exact Hc).
  exists tr, ev. repeat split.
  - specialize (R1 []). rewrite app_nil_r in R1. exact R1.
  - rewrite R1. simpl. now rewrite H1, Hc.
  - intros rest. rewrite R1. simpl. rewrite H1, Hc. now exists (run_polls ids pv' rest).
  - exact R2.
  - exact S2.
  - intros j. rewrite H2. now rewrite (R3 j).
  - intros Hne j Hj. rewrite <- (R3 j). now apply R5.
  - intros j Hj. destruct (H3 j Hj) as [r [old [A [B C]]]]. exists r, old.
    rewrite <- (S1 j). auto.
Qed.

(* fatal errors *)
Lemma ctx_done_mono : forall p k n, ctx_done p (k + n) = false -> ctx_done p k = false.
Proof.
  intros p k n. unfold ctx_done. destruct (p_cancel p) as [c|]; [|reflexivity].
  intros H. apply Nat.leb_gt in H. apply Nat.leb_gt. lia.
Qed.

Lemma poll_ids_fatal : forall p ids1 j ids2 e k prev,
  (forall i, In i ids1 -> exists r, p_read p i = RStatus r) ->
  p_read p j = RErr e -> is_ctx_err e = false ->
  ctx_done p (k + List.length ids1) = false ->
  exists prev' evs, poll_ids p k (ids1 ++ j :: ids2) prev = (prev', evs, StopErr e).
Proof.
  intros p ids1. induction ids1 as [|i t IH]; intros j ids2 e k prev Hall Hj He Hd; simpl.
  - rewrite Nat.add_0_r in Hd. rewrite Hd, Hj, He. now exists prev, [].
  - rewrite (ctx_done_mono _ _ _ Hd).
    destruct (Hall i (or_introl eq_refl)) as [r Hr]. rewrite Hr.
    assert (Hd' : ctx_done p (S k + List.length t) = false)
      by (simpl in Hd; now rewrite Nat.add_succ_r in Hd).
    assert (Hall' : forall x, In x t -> exists r, p_read p x = RStatus r)
      by (intros x Hx; apply Hall; now right).
    destruct (is_updated prev r).
    + destruct (IH j ids2 e (S k) (pm_set prev i r) Hall' Hj He Hd') as [pv [ev H]].
      rewrite H. now exists pv, (Upd r :: ev).
    + apply (IH j ids2 e (S k) prev Hall' Hj He Hd').
Qed.

Definition fatal_at (ids : list nat) (p : poll) (e : err) : Prop :=
  is_ctx_err e = false /\
  (p_sync p = Some e \/
   (p_sync p = None /\ exists ids1 j ids2,
       ids = ids1 ++ j :: ids2 /\
       (forall i, In i ids1 -> exists r, p_read p i = RStatus r) /\
       p_read p j = RErr e /\ ctx_done p (List.length ids1) = false)).

Lemma run_polls_fatal : forall ids ps p rest e,
  Forall (clean ids) ps -> fatal_at ids p e ->
  exists evs, Forall is_upd evs /\ run_polls ids [] (ps ++ p :: rest) = evs ++ [Err e; Close].
Proof.
  intros ids ps p rest e Hps [He Hf].
  destruct (run_clean_prefix ids ps [] [] Hps prev_ok_nil) as [pv [tr [R1 [R2 _]]]].
  rewrite R1. simpl.
  destruct (poll_step ids pv p) as [[pv' ev] out] eqn:Hp.
  pose proof (poll_step_all_upd _ _ _ _ _ _ Hp) as Hu.
  assert (Hout : out = StopErr e).
  { unfold poll_step in Hp. destruct Hf as [Hs | [Hs [ids1 [j [ids2 [Hi [Hall [Hj Hd]]]]]]]].
    - rewrite Hs, He in Hp. now inversion Hp.
    - rewrite Hs in Hp. subst ids.
      destruct (poll_ids_fatal p ids1 j ids2 e 0 pv Hall Hj He Hd) as [a [b Hx]].
      rewrite Hx in Hp. now inversion Hp. }
  subst out. exists (tr ++ ev). split; [apply Forall_app; now split | now rewrite app_assoc].
Qed.

Lemma count_err_shape : forall evs e,
  Forall is_upd evs ->
  filter (fun it => match it with Err _ => true | _ => false end) (evs ++ [Err e; Close]) = [Err e].
Proof.
  intros evs e H. induction H as [|x t [r Hx] Ht IH]; simpl; [reflexivity|].
  subst x. exact IH.
Qed.

(* ---- the statements used by Properties/C17.v ----------------------------- *)
Lemma first_poll_thm : forall ids p rest,
  clean ids p ->
  exists evs tl,
    run (mkSc ids None (p :: rest)) = evs ++ tl /\
    run (mkSc ids None [p]) = evs ++ [Close] /\
    Forall is_upd evs /\
    (forall j, In j ids -> exists r, p_read p j = RStatus r /\ filter (upd_for j) evs = [Upd r]) /\
    (forall j, ~ In j ids -> filter (upd_for j) evs = []).
Proof.
  intros ids p rest Hp.
  destruct (emit_rule ids [] p (Forall_nil _) Hp) as [tr [evs [H1 [H2 [H3 [H4 [H5 [H6 _]]]]]]]].
  assert (tr = []) by (destruct tr as [|x [|y t]]; [reflexivity | inversion H1 | inversion H1]); subst tr.
  destruct (H3 rest) as [tl Htl]. exists evs, tl. simpl in *.
  split; [exact Htl|]. split; [exact H2|]. split; [exact H5|]. split.
  - intros j Hj. destruct Hp as [_ [_ Ha]]. destruct (Ha j Hj) as [r [Hr _]]. exists r.
    split; [exact Hr|]. rewrite H6. apply existsb_eqb_In in Hj. rewrite Hj.
    unfold expected. now rewrite Hr.
  - intros j Hj. rewrite H6. destruct (existsb (Nat.eqb j) ids) eqn:E; [|reflexivity].
    apply existsb_eqb_In in E. contradiction.
Qed.

Lemma emit_iff_thm : forall ids ps p,
  ps <> [] -> Forall (clean ids) ps -> clean ids p ->
  exists tr evs,
    run (mkSc ids None ps) = tr ++ [Close] /\
    run (mkSc ids None (ps ++ [p])) = tr ++ evs ++ [Close] /\
    (forall rest, exists tl, run (mkSc ids None (ps ++ p :: rest)) = tr ++ evs ++ tl) /\
    Forall is_upd tr /\ Forall is_upd evs /\
    (forall j, In j ids -> exists r old,
        p_read p j = RStatus r /\ last_emitted tr j = Some old /\
        filter (upd_for j) evs = if rs_equal r old then [] else [Upd r]) /\
    (forall j, ~ In j ids -> filter (upd_for j) evs = []) /\
    (* afterwards the last emitted status is equal (in that sense) to the reading *)
    (forall j, In j ids -> exists r old, p_read p j = RStatus r /\
        last_emitted (tr ++ evs) j = Some old /\ rs_equal r old = true).
Proof.
  intros ids ps p Hne Hps Hp.
  destruct (emit_rule ids ps p Hps Hp) as [tr [evs [H1 [H2 [H3 [H4 [H5 [H6 [H7 H8]]]]]]]]].
  exists tr, evs. simpl. repeat split; auto.
  - intros j Hj. destruct Hp as [_ [_ Ha]]. destruct (Ha j Hj) as [r [Hr _]].
    destruct (last_emitted tr j) as [old|] eqn:Hl; [|exfalso; now apply (H7 Hne j Hj)].
    exists r, old. repeat split; auto. rewrite H6. apply existsb_eqb_In in Hj. rewrite Hj.
    unfold expected. rewrite Hr, Hl. simpl. now destruct (rs_equal r old).
  - intros j Hj. rewrite H6. destruct (existsb (Nat.eqb j) ids) eqn:E; [|reflexivity].
    apply existsb_eqb_In in E. contradiction.
Qed.

Lemma no_spurious_thm : forall sc pre r post,
  (forall p, In p (s_polls sc) -> wf_on (s_ids sc) p) ->
  run sc = pre ++ Upd r :: post ->
  changed (last_emitted pre (rs_id r)) r = true.
Proof.
  intros sc pre r post Hwf Hrun. unfold run in Hrun. destruct (s_pre sc) as [e|].
  - exfalso. destruct pre as [|x [|y [|z t]]]; inversion Hrun.
  - destruct (run_polls_safe _ _ [] [] Hwf prev_ok_nil) as [Hv _].
    exact (valid_from_split _ [] pre r post Hv Hrun).
Qed.

Lemma grammar_thm : forall sc,
  exists evs, Forall is_upd evs /\
    (run sc = evs ++ [Close] \/ exists e, run sc = evs ++ [Err e; Close]).
Proof.
  intros sc. unfold run. destruct (s_pre sc) as [e|] eqn:Hp.
  - exists []. split; [constructor|]. right. now exists e.
  - assert (Hg : forall polls prev, exists evs, Forall is_upd evs /\
       (run_polls (s_ids sc) prev polls = evs ++ [Close] \/
        exists e, run_polls (s_ids sc) prev polls = evs ++ [Err e; Close])).
    { induction polls as [|p t IH]; intros prev.
      - exists []. split; [constructor | now left].
      - simpl. destruct (poll_step (s_ids sc) prev p) as [[pv ev] out] eqn:E.
        pose proof (poll_step_all_upd _ _ _ _ _ _ E) as Hu.
        destruct out as [| |e].
        + destruct (p_cancel p); [exists ev; split; [exact Hu | now left]|].
          destruct (IH pv) as [evs [H1 [H2|[e H2]]]]; rewrite H2; exists (ev ++ evs);
            (split; [apply Forall_app; now split|]); rewrite app_assoc; [now left | right; now exists e].
        + exists ev. split; [exact Hu | now left].
        + exists ev. split; [exact Hu | right; now exists e]. }
    apply Hg.
Qed.

Lemma fatal_thm : forall ids ps p rest e,
  Forall (clean ids) ps -> fatal_at ids p e ->
  exists evs, Forall is_upd evs /\
    run (mkSc ids None (ps ++ p :: rest)) = evs ++ [Err e; Close] /\
    filter (fun it => match it with Err _ => true | _ => false end)
           (run (mkSc ids None (ps ++ p :: rest))) = [Err e].
Proof.
  intros ids ps p rest e Hps Hf.
  destruct (run_polls_fatal ids ps p rest e Hps Hf) as [evs [H1 H2]].
  exists evs. unfold run. simpl. rewrite H2. repeat split; auto. now apply count_err_shape.
Qed.
