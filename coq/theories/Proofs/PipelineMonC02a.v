(* mon_C02 (Corr/CorrPipeline.v), part 1: the request walk `c02_walk` accepts the
   trace of every run of the model.
   - the walk is decomposed item by item (append law, replay accumulators);
   - the static clauses of a delete request and "apply requests name apply ids"
     come from the authorisation theorem `auth_run` (Proofs/PipelineAuth.v);
   - the dynamic clause of an apply request (the live owner is acceptable under
     the policy) needs the COHERENCE of the replayed object map with the model's
     cluster at every point of the run: a traversal of the run (`Inv`);
   - the alias clause of a delete request follows from the injectivity of the
     UIDs of the initial cluster (the only hypothesis of part 1). *)
From Coq Require Import List Bool Arith NArith ZArith Lia.
From CliUtils Require Import Model.ObjSet Model.ActuationTable Model.PipelineTypes Model.Pipeline
     Proofs.ObjSetProofs Proofs.PipelineBase Proofs.PipelineAuth Proofs.PipelineEvents Proofs.PipelinePolicy
     Corr.CorrPipeline Proofs.PipelineOrphansBase Proofs.PipelineOrphansSpec Proofs.PipelineOrphansPlan
     Proofs.PipelineOrphansRun Proofs.PipelineOrderMon Proofs.PipelineMonBase Proofs.PipelineMonC13.
Import ListNotations.

(* ---- the accumulators of the walk ------------------------------------------------------ *)
Definition centry := (nat * owner * N)%type.
Definition findc (cur : list centry) (i : nat) : option centry :=
  find (fun x => Nat.eqb (fst (fst x)) i) cur.
Definition dropc (cur : list centry) (i : nat) : list centry :=
  filter (fun x => negb (Nat.eqb (fst (fst x)) i)) cur.

Definition app_req (app : list id) (r : req) (ok : bool) : list id :=
  match r with RCreate i _ | RPatch i _ _ => if ok then i :: app else app | _ => app end.
Definition replay_item (sc : scenario) (cur : list centry) (it : item) : list centry :=
  match it with IReq r ok _ _ => replay_req sc cur r ok | _ => cur end.
Definition app_item (app : list id) (it : item) : list id :=
  match it with IReq r ok _ _ => app_req app r ok | _ => app end.
Definition cur_after (sc : scenario) (cur : list centry) (t : list item) : list centry :=
  fold_left (replay_item sc) t cur.
Definition app_after (app : list id) (t : list item) : list id := fold_left app_item t app.

Lemma c02_walk_app sc c0 a : forall cur ap b,
  c02_walk sc c0 cur ap (a ++ b) =
  c02_walk sc c0 cur ap a && c02_walk sc c0 (cur_after sc cur a) (app_after ap a) b.
Proof.
  induction a as [|it a IH]; intros cur ap b; [reflexivity|].
  destruct it as [r ok m st|d|e|]; cbn [app c02_walk cur_after app_after fold_left replay_item app_item].
  - rewrite IH. unfold cur_after, app_after, app_req. rewrite andb_assoc. reflexivity.
  - apply IH.
  - apply IH.
  - apply IH.
Qed.

Lemma findc_cons_drop cur (i : nat) o u (j : nat) :
  findc ((i, o, u) :: dropc cur i) j = if Nat.eqb i j then Some (i, o, u) else findc cur j.
Proof.
  unfold findc. cbn [find fst]. destruct (Nat.eqb i j) eqn:E; [reflexivity|].
  unfold dropc. induction cur as [|x t IH]; [reflexivity|]. cbn [filter find].
  destruct (Nat.eqb (fst (fst x)) i) eqn:E1; cbn [negb find].
  - apply Nat.eqb_eq in E1. rewrite E1, E. exact IH.
  - destruct (Nat.eqb (fst (fst x)) j); [reflexivity|exact IH].
Qed.

Lemma findc_drop cur (i j : nat) : findc (dropc cur i) j = if Nat.eqb i j then None else findc cur j.
Proof.
  unfold findc, dropc. induction cur as [|x t IH]; [destruct (Nat.eqb i j); reflexivity|]. cbn [filter find].
  destruct (Nat.eqb (fst (fst x)) i) eqn:E1; cbn [negb find].
  - rewrite IH. apply Nat.eqb_eq in E1. rewrite E1. destruct (Nat.eqb i j); reflexivity.
  - rewrite IH. destruct (Nat.eqb (fst (fst x)) j) eqn:E2; [|reflexivity].
    apply Nat.eqb_eq in E2. subst j. rewrite Nat.eqb_sym, E1. reflexivity.
Qed.

Lemma findc_some cur i x : findc cur i = Some x -> In x cur /\ fst (fst x) = i.
Proof. unfold findc. intros H. apply find_some in H. destruct H as [H E]. apply Nat.eqb_eq in E. auto. Qed.

Lemma dropc_In cur i x : In x (dropc cur i) -> In x cur.
Proof. unfold dropc. intros H. apply filter_In in H. tauto. Qed.

Lemma prop_eqb_refl p : prop_eqb p p = true.
Proof. destruct p; reflexivity. Qed.

Lemma pol_ok_can_apply sc ow : pol_ok (o_policy (sc_opts sc)) ow = can_apply sc ow.
Proof. reflexivity. Qed.
Lemma pol_ok_can_prune sc ow : pol_ok (o_policy (sc_opts sc)) ow = can_prune sc ow.
Proof. reflexivity. Qed.

(* ---- the walk from item-wise facts ------------------------------------------------------- *)
Section Pure.
  Variable sc : scenario.
  Variable c0 : cluster.
  Notation o := (sc_opts sc).

  Definition uid_inj : Prop :=
    forall c c', In c (objs c0) -> In c' (objs c0) -> c_uid c = c_uid c' -> c_id c = c_id c'.
  Hypothesis HU : uid_inj.

  Definition cur0 : list centry := map (fun c => (c_id c, c_owner c, c_uid c)) (objs c0).

  (* a non-zero UID in the replayed map is the UID of the object of that name in c0 *)
  Definition from0 (cur : list centry) : Prop :=
    forall x, In x cur -> snd x <> 0%N ->
      exists c, In c (objs c0) /\ c_id c = fst (fst x) /\ c_uid c = snd x.

  Lemma from0_cur0 : from0 cur0.
  Proof.
    intros x Hx _. unfold cur0 in Hx. apply in_map_iff in Hx. destruct Hx as [c [<- Hc]].
    exists c. auto.
  Qed.

  Lemma from0_put cur (i : nat) ow u : from0 cur ->
    (u <> 0%N -> exists y, In y cur /\ fst (fst y) = i /\ snd y = u) ->
    from0 ((i, ow, u) :: dropc cur i).
  Proof.
    intros F H x [<-|Hx] Hn.
    - cbn [snd fst] in *. destruct (H Hn) as [y [Hy [E1 E2]]].
      destruct (F y Hy) as [c [A [B C]]]; [congruence|]. exists c. split; [exact A|]. split; congruence.
    - apply F; [eapply dropc_In; exact Hx|exact Hn].
  Qed.

  Lemma from0_keep cur (i : nat) ow : from0 cur ->
    from0 ((i, ow, match findc cur i with Some x => snd x | None => 0%N end) :: dropc cur i).
  Proof.
    intros F. apply from0_put; [exact F|]. intros Hn.
    destruct (findc cur i) as [y|] eqn:E; [|congruence].
    apply findc_some in E. exists y. tauto.
  Qed.

  Lemma from0_replay cur r ok : from0 cur -> from0 (replay_req sc cur r ok).
  Proof.
    intros F. unfold replay_req. destruct ok; cbn [negb]; [|exact F].
    destruct r as [i|l|l| |i d|i s d|i|i pre p]; try exact F.
    - apply from0_put; [exact F|congruence].
    - destruct d; [exact F|]. apply from0_put; [exact F|congruence].
    - destruct d; [exact F|]. apply (from0_keep cur i OOurs F).
    - apply (from0_keep cur i ONone F).
    - intros x Hx. apply F. eapply dropc_In. exact Hx.
  Qed.

  (* the static clauses (what the authorisation theorem gives) *)
  Definition stat (it : item) : Prop :=
    match it with
    | IReq (RDelete i pre p) _ _ _ =>
        exists c, find_obj (objs c0) i = Some c /\ In i (prev_of c0) /\ ~ In i (local_ids sc) /\
                  pol_ok (o_policy o) (c_owner c) = true /\ c_keep c = false /\
                  negb (o_destroy o) && match u_kind (uinfo_of sc i) with KNs => ns_in_use sc (sc_local sc) i | _ => false end = false /\
                  pre = c_uid c /\ p = o_prop o
    | IReq (RCreate i _) _ _ _ | IReq (RPatch i _ _) _ _ _ => In i (local_ids sc)
    | _ => True
    end.

  (* the dynamic clause of an apply request *)
  Definition aok (cur : list centry) (it : item) : Prop :=
    match it with
    | IReq (RCreate i _) _ _ _ | IReq (RPatch i _ _) _ _ _ =>
        forall x, findc cur i = Some x -> pol_ok (o_policy o) (snd (fst x)) = true
    | _ => True
    end.

  Fixpoint Walk (cur : list centry) (t : list item) : Prop :=
    match t with
    | [] => True
    | it :: rest => aok cur it /\ Walk (replay_item sc cur it) rest
    end.

  Lemma Walk_app a : forall cur b, Walk cur (a ++ b) <-> Walk cur a /\ Walk (cur_after sc cur a) b.
  Proof.
    induction a as [|it a IH]; intros cur b; cbn [app Walk cur_after fold_left]; [tauto|].
    rewrite IH. unfold cur_after. tauto.
  Qed.

  Lemma here_delete cur ap i pre p ok m st :
    from0 cur -> (forall j, In j ap -> In j (local_ids sc)) -> stat (IReq (RDelete i pre p) ok m st) ->
    match find_obj (objs c0) i with
    | None => false
    | Some c =>
        memn i (prev_of c0) && negb (memn i (local_ids sc)) && pol_ok (o_policy o) (c_owner c)
        && negb (c_keep c)
        && negb (negb (o_destroy o) && match u_kind (uinfo_of sc i) with KNs => ns_in_use sc (sc_local sc) i | _ => false end)
        && negb (existsb (fun j => match find (fun x => Nat.eqb (fst (fst x)) j) cur with
                                   | Some x => N.eqb (snd x) (c_uid c) && negb (N.eqb (c_uid c) 0)
                                   | None => false end) ap)
        && N.eqb pre (c_uid c) && prop_eqb p (o_prop o)
    end = true.
  Proof.
    intros F HA [c [E [H1 [H2 [H3 [H4 [H5 [-> ->]]]]]]]]. rewrite E.
    rewrite (proj2 (memn_In _ _) H1), H3, H4, H5, N.eqb_refl, prop_eqb_refl.
    assert (M : memn i (local_ids sc) = false).
    { destruct (memn i (local_ids sc)) eqn:X; [|reflexivity]. apply memn_In in X. contradiction. }
    rewrite M. cbn [negb andb]. rewrite !andb_true_r.
    match goal with |- negb (existsb ?f ap) = true => destruct (existsb f ap) eqn:EX; [|reflexivity] end. exfalso.
    apply existsb_exists in EX. destruct EX as [j [Hj X]].
    fold (findc cur j) in X. destruct (findc cur j) as [x|] eqn:EF; [|discriminate].
    apply andb_true_iff in X. destruct X as [X1 X2]. apply N.eqb_eq in X1. apply negb_true_iff in X2. apply N.eqb_neq in X2.
    apply findc_some in EF. destruct EF as [Hx Ex].
    destruct (F x Hx) as [c' [A [B C]]]; [congruence|].
    assert (EI : c_id c' = c_id c).
    { apply HU; [exact A|eapply find_obj_In; exact E|congruence]. }
    apply H2. rewrite <- (find_obj_id _ _ _ E), <- EI, B, Ex. apply HA. exact Hj.
  Qed.

  Lemma walk_ok t : forall cur ap, from0 cur -> (forall j, In j ap -> In j (local_ids sc)) ->
    Forall stat t -> Walk cur t -> c02_walk sc c0 cur ap t = true.
  Proof.
    induction t as [|it rest IH]; intros cur ap F HA FS W; [reflexivity|].
    inversion FS as [|? ? S1 S2]; subst. destruct W as [W1 W2].
    destruct it as [r ok m st|d|e|]; cbn [c02_walk]; try (apply IH; assumption).
    cbn [replay_item] in W2. apply andb_true_iff. split.
    - destruct r as [i|l|l| |i d|i s d|i|i pre p]; try reflexivity.
      + cbn [aok] in W1. fold (findc cur i). destruct (findc cur i) as [x|] eqn:E; [apply W1; reflexivity|reflexivity].
      + cbn [aok] in W1. fold (findc cur i). destruct (findc cur i) as [x|] eqn:E; [apply W1; reflexivity|reflexivity].
      + eapply here_delete; eassumption.
    - apply IH; [apply from0_replay; exact F| |exact S2|exact W2].
      intros j Hj. destruct r as [i|l|l| |i d|i s d|i|i pre p]; try (apply HA; exact Hj);
        (destruct ok; [destruct Hj as [<-|Hj]; [exact S1|apply HA; exact Hj]|apply HA; exact Hj]).
  Qed.
End Pure.

(* ---- coherence of the replayed map with a cluster ------------------------------------------ *)
(* every entry of the replayed map is a live object with that owner.  (Not the converse: an object
   held by a finalizer survives its accepted DELETE, while the replay drops its entry; the walk never
   looks at that identifier again.) *)
Definition coh (cl : cluster) (cur : list centry) : Prop :=
  forall i : nat,
    match findc cur i with
    | None => True
    | Some x => exists c u, find_obj (objs cl) i = Some c /\ x = (i, c_owner c, u)
    end.

Lemma coh_objs cl cl' cur : objs cl' = objs cl -> coh cl cur -> coh cl' cur.
Proof. intros E H i. rewrite E. apply H. Qed.

Lemma coh_put cl cur n iv nu u :
  coh cl cur -> coh (mkCl (put_obj (objs cl) n) iv nu) ((c_id n, c_owner n, u) :: dropc cur (c_id n)).
Proof.
  intros H i. cbn [objs]. unfold id in *. rewrite find_obj_put, findc_cons_drop.
  destruct (Nat.eqb (c_id n) i) eqn:E; [|apply H].
  apply Nat.eqb_eq in E. subst i. exists n, u. split; reflexivity.
Qed.

Lemma coh_del cl cur (i : nat) iv nu :
  coh cl cur -> coh (mkCl (del_obj (objs cl) i) iv nu) (dropc cur i).
Proof.
  intros H j. cbn [objs]. rewrite find_obj_del, findc_drop.
  destruct (Nat.eqb i j); [exact I|apply H].
Qed.

(* an accepted delete that leaves the object (finalizer): the entry is dropped, the cluster is not touched *)
Lemma coh_drop cl cur (i : nat) : coh cl cur -> coh cl (dropc cur i).
Proof.
  intros H j. rewrite findc_drop. destruct (Nat.eqb i j); [exact I|apply H].
Qed.

Lemma coh_cur0 c0 : coh c0 (cur0 c0).
Proof.
  intros i. unfold cur0, findc. induction (objs c0) as [|c t IH]; [exact I|].
  cbn [find_obj map find fst]. destruct (Nat.eqb (c_id c) i) eqn:E; [|exact IH].
  apply Nat.eqb_eq in E. subst i. exists c, (c_uid c). split; reflexivity.
Qed.

(* ---- the invariant of a run ------------------------------------------------------------------ *)
Section Trav.
  Variable sc : scenario.
  Variable c0 : cluster.
  Notation pol := (o_policy (sc_opts sc)).

  Definition curR (tr : list item) : list centry := cur_after sc (cur0 c0) (rev tr).
  Definition Inv (s : rst) : Prop :=
    Walk sc (cur0 c0) (rev (r_tr s)) /\ coh (r_cl s) (curR (r_tr s)).

  Lemma curR_cons it t : curR (it :: t) = replay_item sc (curR t) it.
  Proof. unfold curR, cur_after. cbn [rev]. rewrite fold_left_app. reflexivity. Qed.

  Lemma WalkR_cons it t :
    Walk sc (cur0 c0) (rev (it :: t)) <-> Walk sc (cur0 c0) (rev t) /\ aok sc (curR t) it.
  Proof. cbn [rev]. rewrite Walk_app. cbn [Walk]. unfold curR. tauto. Qed.

  Lemma Inv_same s s' : r_cl s' = r_cl s -> r_tr s' = r_tr s -> Inv s -> Inv s'.
  Proof. unfold Inv. intros -> ->. tauto. Qed.

  (* items the walk skips *)
  Definition Qs (it : item) : Prop :=
    match it with
    | IReq (RInvCreate _) _ _ _ | IReq (RInvUpdate _) _ _ _ | IReq RInvDelete _ _ _ => True
    | IReq _ _ _ _ => False
    | _ => True
    end.
  Definition Co (a b : cluster) : Prop := objs b = objs a.

  Lemma Qs_replay cur it : Qs it -> replay_item sc cur it = cur.
  Proof.
    intros H. destruct it as [r ok m st| | |]; try reflexivity. cbn [replay_item]. unfold replay_req.
    destruct ok; [|reflexivity]. destruct r; cbn in *; try reflexivity; destruct H.
  Qed.
  Lemma Qs_aok cur it : Qs it -> aok sc cur it.
  Proof. intros H. destruct it as [r ok m st| | |]; try exact I. destruct r; cbn in *; try exact I; destruct H. Qed.

  Lemma Inv_skip s s' l : objs (r_cl s') = objs (r_cl s) -> r_tr s' = l ++ r_tr s -> Forall Qs l ->
    Inv s -> Inv s'.
  Proof.
    intros EC ET F [W C]. unfold Inv. rewrite ET. clear ET.
    assert (X : Walk sc (cur0 c0) (rev (l ++ r_tr s)) /\ curR (l ++ r_tr s) = curR (r_tr s)).
    { induction F as [|it l Hit _ IH]; [split; [exact W|reflexivity]|].
      destruct IH as [IW IC]. cbn [app]. rewrite WalkR_cons, curR_cons, IC. split; [|apply Qs_replay; exact Hit].
      split; [exact IW|apply Qs_aok; exact Hit]. }
    destruct X as [X1 X2]. split; [exact X1|]. rewrite X2. eapply coh_objs; eassumption.
  Qed.

  Notation sstep := (step Qs Co).
  Lemma Co_refl : forall c, Co c c. Proof. reflexivity. Qed.
  Lemma Co_trans : forall a b c, Co a b -> Co b c -> Co a c. Proof. unfold Co. intros; congruence. Qed.
  Lemma Qs_ev : forall e, Qs (IEv e). Proof. intros; exact I. Qed.
  Lemma Qs_deliv : forall d, Qs (IDeliv d). Proof. intros; exact I. Qed.

  Lemma sstep_Inv s s' : sstep s s' -> Inv s -> Inv s'.
  Proof. intros [C [l [E F]]]. eapply Inv_skip; eassumption. Qed.

  Lemma s_refl s : sstep s s. Proof. apply (step_refl Qs Co Co_refl). Qed.
  Lemma s_tr a b c : sstep a b -> sstep b c -> sstep a c. Proof. apply (step_trans Qs Co Co_trans). Qed.
  Lemma s_same s s' : r_cl s' = r_cl s -> r_tr s' = r_tr s -> sstep s s'.
  Proof. apply (step_same Qs Co Co_refl). Qed.
  Lemma s_ev s e : sstep s (ev s e). Proof. apply (step_ev Qs Co Co_refl Qs_ev). Qed.
  Lemma s_inv_list s : sstep s (fst (inv_list sc s)).
  Proof. apply (step_inv_list sc Qs Co Co_refl). Qed.

  Lemma Inv_ev s e : Inv s -> Inv (ev s e).
  Proof. apply sstep_Inv, s_ev. Qed.

  (* the inventory object: writes, merge, replace, delete *)
  Lemma s_inv_apply s ids : sstep s (fst (inv_apply sc s ids)).
  Proof.
    unfold inv_apply. cbv zeta. destruct (faulted sc (FInvGet _)); cbn [fst]; [apply s_same; reflexivity|].
    destruct (faulted sc (FInvWrite _)); cbn [fst].
    - eapply s_tr; [|apply (step_log_req_same Qs Co Co_refl); destruct (inv (r_cl s)); exact I].
      apply s_same; reflexivity.
    - match goal with |- sstep s (log_req (set_cl ?x ?c) ?r true) =>
        apply (s_tr s x); [apply s_same; reflexivity|apply (step_log_req Qs Co x c r true); [reflexivity|]] end.
      destruct (inv (r_cl s)); exact I.
  Qed.
  Lemma s_inv_update s ids : sstep s (fst (inv_update sc s ids)).
  Proof.
    unfold inv_update. cbv zeta. destruct (faulted sc (FInvWrite _)); cbn [fst].
    - eapply s_tr; [|apply (step_log_req_same Qs Co Co_refl); exact I]. apply s_same; reflexivity.
    - cbn [r_cl]. destruct (inv (r_cl s)); cbn [fst].
      + match goal with |- sstep s (log_req (set_cl ?x ?c) ?r true) =>
          apply (s_tr s x); [apply s_same; reflexivity|apply (step_log_req Qs Co x c r true); [reflexivity|exact I]] end.
      + eapply s_tr; [|apply (step_log_req_same Qs Co Co_refl); exact I]. apply s_same; reflexivity.
  Qed.
  Lemma s_merge s ids : sstep s (fst (merge sc s ids)).
  Proof.
    unfold merge. cbv zeta.
    pose proof (s_inv_list s) as L1. destruct (inv_list sc s) as [s1 r1]. cbn [fst] in L1.
    destruct r1 as [[l|]|]; cbn [fst]; try exact L1.
    - pose proof (s_inv_list s1) as L2. destruct (inv_list sc s1) as [s2 r2]. cbn [fst] in L2.
      pose proof (s_tr _ _ _ L1 L2) as L12.
      destruct r2 as [cur1|]; cbn [fst]; [|exact L12].
      destruct (set_eqn _ _ && _); cbn [fst]; [exact L12|].
      destruct (is_dry _); cbn [fst]; [exact L12|].
      eapply s_tr; [exact L12|apply s_inv_apply].
    - destruct (is_dry _); cbn [fst]; [exact L1|]. eapply s_tr; [exact L1|apply s_inv_apply].
  Qed.
  Lemma s_replace s ids : sstep s (fst (replace sc s ids)).
  Proof.
    unfold replace. cbv zeta. destruct (is_dry _); cbn [fst]; [apply s_refl|].
    pose proof (s_inv_list s) as L1. destruct (inv_list sc s) as [s1 r1]. cbn [fst] in L1.
    destruct r1 as [x|]; cbn [fst]; [|exact L1].
    pose proof (s_inv_list s1) as L2. destruct (inv_list sc s1) as [s2 r2]. cbn [fst] in L2.
    pose proof (s_tr _ _ _ L1 L2) as L12.
    destruct r2 as [[cur1|]|]; cbn [fst]; try exact L12.
    destruct (set_eqn _ _ && _); cbn [fst]; [exact L12|].
    eapply s_tr; [exact L12|apply s_inv_update].
  Qed.
  Lemma s_delete_inventory s : sstep s (fst (delete_inventory sc s)).
  Proof.
    unfold delete_inventory. cbv zeta.
    pose proof (s_inv_list s) as L1. destruct (inv_list sc s) as [s1 r1]. cbn [fst] in L1.
    destruct r1 as [[l|]|]; cbn [fst]; try exact L1.
    destruct (is_dry _); cbn [fst]; [exact L1|].
    destruct (faulted sc FInvDelete); cbn [fst].
    - eapply s_tr; [exact L1|apply (step_log_req_same Qs Co Co_refl); exact I].
    - eapply s_tr; [exact L1|apply (step_log_req Qs Co); [reflexivity|exact I]].
  Qed.
  Lemma s_inv_set_task pl prev s : sstep s (fst (inv_set_task sc pl prev s)).
  Proof.
    unfold inv_set_task. destruct prev as [pv|]; cbn [fst]; [|apply s_refl].
    destruct (o_destroy (sc_opts sc) && destroy_successful pl pv s); [apply s_delete_inventory|apply s_replace].
  Qed.
  Lemma s_wait_task c g ids s : sstep s (wait_task sc c g ids s).
  Proof. apply (step_wait_task sc Qs Co Co_refl Co_trans Qs_ev Qs_deliv). Qed.
End Trav.

Lemma coh_put' cl cur n iv nu (i : nat) ow u : c_id n = i -> c_owner n = ow ->
  coh cl cur -> coh (mkCl (put_obj (objs cl) n) iv nu) ((i, ow, u) :: dropc cur i).
Proof. intros <- <-. apply coh_put. Qed.

Section Trav2.
  Variable sc : scenario.
  Variable c0 : cluster.
  Notation pol := (o_policy (sc_opts sc)).
  Notation Inv := (Inv sc c0).
  Notation curS s := (curR sc c0 (r_tr s)).

  Lemma Inv_log s s1 r ok : r_tr s1 = r_tr s -> Inv s ->
    aok sc (curS s) (IReq r ok [] None) ->
    coh (r_cl s1) (replay_req sc (curS s) r ok) -> Inv (log_req s1 r ok).
  Proof.
    intros ET [W C] A H. unfold Inv. cbn [log_req emit r_tr r_cl]. rewrite ET.
    rewrite WalkR_cons, curR_cons. cbn [replay_item]. split; [split; [exact W|exact A]|exact H].
  Qed.

  Lemma aok_from_coh cl cur (i : nat) : coh cl cur ->
    (forall c, find_obj (objs cl) i = Some c -> can_apply sc (c_owner c) = true) ->
    forall x, findc cur i = Some x -> pol_ok pol (snd (fst x)) = true.
  Proof.
    intros C H x E. specialize (C i). rewrite E in C. destruct C as [c [u [F ->]]].
    cbn [fst snd]. apply (H c F).
  Qed.

  Lemma w_ssa_patch s l n :
    (forall c, find_obj (objs (r_cl s)) (l_id l) = Some c -> can_apply sc (c_owner c) = true) ->
    Inv s -> Inv (fst (ssa_patch sc s l n)).
  Proof.
    intros HP I0. pose proof I0 as [W0 C0].
    pose proof (aok_from_coh _ _ (l_id l) C0 HP) as AK.
    unfold ssa_patch. cbv zeta.
    destruct (faulted sc (FStream (l_id l) n)); cbn [fst].
    { apply (Inv_log s); [apply mc_tr|exact I0|exact AK|rewrite mc_cl; exact C0]. }
    destruct (faulted sc (FApply (l_id l))); cbn [fst].
    { apply (Inv_log s); [apply mc_tr|exact I0|exact AK|rewrite mc_cl; exact C0]. }
    rewrite (mc_cl sc s).
    destruct (find_obj (objs (r_cl s)) (l_id l)) as [c|] eqn:EF;
      destruct (match o_dry (sc_opts sc) with DServer => true | _ => false end); cbn [fst].
    + apply (Inv_log s); [apply mc_tr|exact I0|exact AK|rewrite mc_cl; exact C0].
    + apply (Inv_log s); [cbn [set_cl r_tr]; apply mc_tr|exact I0|exact AK|].
      cbn [set_cl r_cl]. unfold replay_req. cbn [negb]. apply coh_put'; [reflexivity|reflexivity|exact C0].
    + apply (Inv_log s); [apply mc_tr|exact I0|exact AK|rewrite mc_cl; exact C0].
    + apply (Inv_log s); [cbn [set_cl r_tr]; apply mc_tr|exact I0|exact AK|].
      cbn [set_cl r_cl]. unfold replay_req. cbn [negb]. apply coh_put'; [reflexivity|reflexivity|exact C0].
  Qed.

  Lemma w_csa_apply s l :
    (forall c, find_obj (objs (r_cl s)) (l_id l) = Some c -> can_apply sc (c_owner c) = true) ->
    Inv s -> Inv (fst (csa_apply sc s l)).
  Proof.
    intros HP I0. pose proof I0 as [W0 C0].
    pose proof (aok_from_coh _ _ (l_id l) C0 HP) as AK.
    unfold csa_apply. cbv zeta.
    pose proof (same4_get_obj sc s (l_id l)) as G. pose proof (get_obj_found sc s (l_id l)) as GF.
    destruct (get_obj sc s (l_id l)) as [s1 g]. cbn [fst snd] in G, GF. destruct G as [G1 [_ [_ G4]]].
    assert (I1 : Inv s1) by (eapply Inv_same; eassumption).
    destruct g as [| |c]; cbn [fst]; try exact I1.
    + destruct (is_dry _); cbn [fst]; [exact I1|].
      destruct (faulted sc (FApply (l_id l))); cbn [fst].
      { apply (Inv_log s); [rewrite mc_tr; exact G4|exact I0|exact AK|rewrite mc_cl, G1; exact C0]. }
      apply (Inv_log s); [cbn [set_cl r_tr]; rewrite mc_tr; exact G4|exact I0|exact AK|].
      cbn [set_cl r_cl]. rewrite mc_cl, G1. unfold replay_req. cbn [negb].
      apply coh_put'; [reflexivity|reflexivity|exact C0].
    + destruct (negb (patch_needed c l)); cbn [fst]; [exact I1|].
      destruct (is_dry _); cbn [fst]; [exact I1|].
      destruct (faulted sc (FApply (l_id l))); cbn [fst].
      { apply (Inv_log s); [rewrite mc_tr; exact G4|exact I0|exact AK|rewrite mc_cl, G1; exact C0]. }
      apply (Inv_log s); [cbn [set_cl r_tr]; rewrite mc_tr; exact G4|exact I0|exact AK|].
      cbn [set_cl r_cl]. rewrite mc_cl, G1. unfold replay_req. cbn [negb].
      apply coh_put'; [|apply merged_owner|exact C0].
      rewrite merged_id. eapply find_obj_id. apply GF. reflexivity.
  Qed.

  (* APIService fallback: the rejected apply PATCH leaves the cluster as it was, so the second
     attempt meets the same owner *)
  Lemma w_kubectl_apply s l :
    (forall c, find_obj (objs (r_cl s)) (l_id l) = Some c -> can_apply sc (c_owner c) = true) ->
    Inv s -> Inv (fst (kubectl_apply sc s l)).
  Proof.
    intros HP I0.
    destruct (kubectl_apply_cases sc l s) as [[_ ->]|[[_ [-> _]]|[_ [E [_ [_ ->]]]]]].
    - apply w_csa_apply; assumption.
    - cbn [fst]. apply w_ssa_patch; assumption.
    - pose proof (w_ssa_patch s l 0 HP I0) as I1.
      assert (C1 : r_cl (fst (ssa_patch sc s l 0)) = r_cl s).
      { rewrite (ssa_patch_stream sc l s 0 E). cbn [log_req emit r_cl]. apply mc_cl. }
      assert (HP1 : forall c, find_obj (objs (r_cl (fst (ssa_patch sc s l 0)))) (l_id l) = Some c -> can_apply sc (c_owner c) = true)
        by (rewrite C1; exact HP).
      destruct (apisvc_fallback_cases sc l (fst (ssa_patch sc s l 0))) as [[_ ->]|[_ ->]].
      + cbn [fst]. apply w_ssa_patch; assumption.
      + apply w_csa_apply; assumption.
  Qed.

  Lemma can_apply_adopt_all ow : pol = PAdoptAll -> can_apply sc ow = true.
  Proof. unfold can_apply. intros ->. destruct ow; reflexivity. Qed.

  Lemma w_apply_one pl g s p : (forall l, p_local p = Some l -> l_id l = p_id p) ->
    Inv s -> Inv (apply_one sc pl g s p).
  Proof.
    intros HL I0. unfold apply_one. destruct (p_local p) as [l|] eqn:EL; [|exact I0].
    pose proof (HL l eq_refl) as EI.
    destruct (negb (kind_known sc (r_known s) (p_id p))).
    { eapply Inv_same; [| |apply Inv_ev; exact I0]; reflexivity. }
    pose proof (same4_policy_apply_filter sc s (p_id p)) as P.
    pose proof (policy_apply_filter_spec sc s (p_id p)) as PS. cbv zeta in PS.
    destruct (policy_apply_filter sc s (p_id p)) as [s1 f1]. cbn [fst snd] in P, PS. destruct P as [P1 [_ [_ P4]]].
    assert (I1 : Inv s1) by (eapply Inv_same; eassumption).
    assert (SK : forall s2 e a u gg, Inv s2 -> Inv (rec_add (ev s2 e) (p_id p) SApply a u gg)).
    { intros s2 e a u gg H. eapply Inv_same; [| |apply Inv_ev; exact H]; reflexivity. }
    destruct f1; [|apply SK; exact I1|apply SK; exact I1].
    destruct (dep_filter sc pl (r_tbl s1) SApply (g_deps (pl_graph pl) (p_id p))); [|apply SK; exact I1|apply SK; exact I1].
    assert (HP : forall c, find_obj (objs (r_cl s1)) (l_id l) = Some c -> can_apply sc (c_owner c) = true).
    { rewrite P1, EI. intros c Hc. destruct (proj1 PS eq_refl) as [A|[_ A]]; [apply can_apply_adopt_all; exact A|].
      rewrite Hc in A. exact A. }
    pose proof (mutate_cl sc s1 l) as M1. pose proof (mutate_tr sc s1 l) as M4.
    destruct (mutate sc s1 l) as [sm okm]. cbn [fst] in M1, M4.
    assert (Im : Inv sm) by (eapply Inv_same; eassumption).
    destruct okm; cbn [negb]; [|apply SK; exact Im].
    rewrite <- M1 in HP.
    pose proof (w_kubectl_apply sm l HP Im) as K.
    destruct (kubectl_apply sc sm l) as [s2 r]. cbn [fst] in K.
    destruct r; apply SK; exact K.
  Qed.

  Lemma w_apply_task pl g layer : Forall (local_ok pl) layer ->
    forall s, Inv s -> Inv (apply_task sc pl g s layer).
  Proof.
    unfold apply_task. induction 1 as [|p t [_ Hp] _ IH]; intros s I0; cbn [fold_left]; [exact I0|].
    apply IH. apply w_apply_one; assumption.
  Qed.

  Lemma w_prune_one pl locals g uids s p : Inv s -> Inv (prune_one sc pl locals g uids s p).
  Proof.
    intros I0. pose proof I0 as [W0 C0]. unfold prune_one. cbv zeta.
    destruct (p_live p) as [c|]; [|exact I0].
    assert (SK : forall s2 e a u gg, Inv s2 -> Inv (rec_add (ev s2 e) (c_id c) SDelete a u gg)).
    { intros s2 e a u gg H. eapply Inv_same; [| |apply Inv_ev; exact H]; reflexivity. }
    assert (AB : forall s2, Inv s2 -> Inv (add_aband s2 (c_id c))).
    { intros s2 H. eapply Inv_same; [| |exact H]; reflexivity. }
    destruct (prune_filters sc pl locals (r_tbl s) uids c).
    - (* delete *)
      destruct (is_dry _); [apply SK; exact I0|].
      destruct (faulted sc (FDelete (c_id c))).
      { apply SK. apply (Inv_log s); [apply mc_tr|exact I0|exact I|rewrite mc_cl; exact C0]. }
      rewrite (mc_cl sc s).
      destruct (find_obj (objs (r_cl s)) (c_id c)) as [live|].
      + destruct (N.eqb (c_uid live) (c_uid c)).
        * destruct (u_fin (uinfo_of sc (c_id c))).
          -- apply SK. apply (Inv_log s); [apply mc_tr|exact I0|exact I|].
             rewrite mc_cl. unfold replay_req. cbn [negb]. apply coh_drop. exact C0.
          -- apply SK. apply (Inv_log s); [cbn [set_cl r_tr]; apply mc_tr|exact I0|exact I|].
             cbn [set_cl r_cl]. unfold replay_req. cbn [negb]. apply coh_del. exact C0.
        * apply SK. apply (Inv_log s); [apply mc_tr|exact I0|exact I|rewrite mc_cl; exact C0].
      + apply SK. apply (Inv_log s); [apply mc_tr|exact I0|exact I|rewrite mc_cl; exact C0].
    - (* keep: detach *)
      destruct (is_dry _); [apply SK; exact I0|].
      assert (UPD : Inv (if faulted sc (FUpdate (c_id c))
              then rec_add (ev (log_req s (RUpdate (c_id c)) false) (EPrune g (c_id c) AFail)) (c_id c) SDelete AFailed 0%N 0%Z
              else match find_obj (objs (r_cl s)) (c_id c) with
                   | None => rec_add (ev (log_req s (RUpdate (c_id c)) false) (EPrune g (c_id c) AFail)) (c_id c) SDelete AFailed 0%N 0%Z
                   | Some _ =>
                       rec_add (ev (add_aband (log_req (set_cl s (mkCl (put_obj (objs (r_cl s))
                                  (mkC (c_id c) (c_uid c) ONone (c_keep c) (c_deps c) (c_baddep c) (c_ver c) (c_last c)))
                                  (inv (r_cl s)) (next_uid (r_cl s)))) (RUpdate (c_id c)) true) (c_id c))
                                (EPrune g (c_id c) ASkip)) (c_id c) SDelete ASkipped 0%N 0%Z
                   end)).
      { destruct (faulted sc (FUpdate (c_id c))).
        { apply SK. apply (Inv_log s); [reflexivity|exact I0|exact I|exact C0]. }
        destruct (find_obj (objs (r_cl s)) (c_id c)).
        - apply SK, AB. apply (Inv_log s); [reflexivity|exact I0|exact I|].
          cbn [set_cl r_cl]. unfold replay_req. cbn [negb]. apply coh_put'; [reflexivity|reflexivity|exact C0].
        - apply SK. apply (Inv_log s); [reflexivity|exact I0|exact I|exact C0]. }
      destruct (c_owner c); [apply SK, AB; exact I0|exact UPD|exact UPD].
    - destruct (is_dry _); [apply SK; exact I0|apply SK, AB; exact I0].
    - apply SK; exact I0.
    - apply SK; exact I0.
  Qed.

  Lemma w_prune_task pl locals g layer : forall s, Inv s -> Inv (prune_task sc pl locals g s layer).
  Proof.
    unfold prune_task. intros s. generalize (applied_uids (r_tbl s)). intros uids. revert s.
    induction layer as [|p t IH]; intros s I0; cbn [fold_left]; [exact I0|].
    apply IH. apply w_prune_one. exact I0.
  Qed.

  Lemma w_inv_add_task pl s :
    (forall p l, In p (pl_apply pl) -> p_local p = Some l -> l_id l = p_id p) ->
    Inv s -> Inv (fst (inv_add_task sc pl s)).
  Proof.
    intros HL I0. pose proof I0 as [W0 C0]. unfold inv_add_task. cbv zeta.
    match goal with |- Inv (fst (let '(s1, ok1) := ?X in _)) =>
      assert (H : Inv (fst X)); [|destruct X as [s1 ok1]; cbn [fst] in H] end.
    { destruct (sc_inv_ns sc) as [n|]; [|exact I0].
      destruct (find (fun p => Nat.eqb (p_id p) n) (pl_apply pl)) as [p|] eqn:EF; [|exact I0].
      apply find_some in EF. destruct EF as [Hin _].
      destruct (p_local p) as [l|] eqn:EL; [|exact I0].
      pose proof (HL p l Hin EL) as EI.
      destruct (is_dry _); cbn [fst]; [exact I0|].
      destruct (faulted sc FNsCreate); cbn [fst].
      { apply (Inv_log s); [reflexivity|exact I0|exact I|exact C0]. }
      destruct (find_obj (objs (r_cl s)) (p_id p)); cbn [fst].
      - apply (Inv_log s); [reflexivity|exact I0|exact I|exact C0].
      - apply (Inv_log s); [reflexivity|exact I0|exact I|].
        cbn [set_cl r_cl]. unfold replay_req. cbn [negb]. apply coh_put'; [exact EI|reflexivity|exact C0]. }
    destruct ok1; cbn [fst]; [|exact H]. eapply sstep_Inv; [apply s_merge|exact H].
  Qed.

  Definition plan_local (pl : plan) : Prop :=
    forall p l, In p (pl_apply pl) -> p_local p = Some l -> l_id l = p_id p.

  Lemma w_run_task pl locals prev s t : plan_local pl -> task_ok pl t ->
    Inv s -> Inv (fst (run_task sc pl locals prev s t)).
  Proof.
    intros HL OK I0. unfold run_task. cbv zeta.
    pose proof (Inv_ev sc c0 s (EStarted (task_name t)) I0) as S0.
    destruct t; cbn [task_ok] in OK.
    - pose proof (w_inv_add_task pl _ HL S0) as T.
      destruct (inv_add_task sc pl _) as [s1 ok]. cbn [fst] in *. apply Inv_ev. exact T.
    - cbn [fst]. apply Inv_ev. apply w_apply_task; assumption.
    - cbn [fst]. apply Inv_ev. eapply sstep_Inv; [apply s_wait_task|exact S0].
    - cbn [fst]. apply Inv_ev. apply w_prune_task. exact S0.
    - pose proof (sstep_Inv sc c0 _ _ (s_inv_set_task sc pl prev (ev s (EStarted (task_name TInvSet)))) S0) as T.
      destruct (inv_set_task sc pl prev _) as [s1 ok]. cbn [fst] in *. apply Inv_ev. exact T.
  Qed.

  Lemma w_run_tasks pl locals prev ts : plan_local pl -> Forall (task_ok pl) ts ->
    forall s, Inv s -> Inv (run_tasks sc pl locals prev s ts).
  Proof.
    intros HL OK. induction OK as [|t rest Ot _ IH]; intros s I0; cbn [run_tasks]; [exact I0|].
    pose proof (w_run_task pl locals prev s t HL Ot I0) as T.
    destruct (run_task sc pl locals prev s t) as [s1 ok]. cbn [fst] in T.
    destruct (negb ok); [apply Inv_ev; exact T|].
    destruct (r_abort s1); [apply Inv_ev; exact T|]. apply IH. exact T.
  Qed.
End Trav2.

(* ---- the whole run ----------------------------------------------------------------------------- *)
Section RunW.
  Variable sc : scenario.
  Variable c0 : cluster.
  Notation pl := (plan_of sc c0).
  Notation Inv := (Inv sc c0).

  Lemma plan_of_local : plan_local pl.
  Proof.
    intros p l Hp E. rewrite plan_of_eq in Hp.
    destruct (bp_apply_is_local sc _ _ _ p Hp) as [l' [-> _]]. cbn in E. injection E as <-. reflexivity.
  Qed.

  Lemma plan_of_tasks_ok : Forall (task_ok pl) (tasks_of sc pl).
  Proof. rewrite plan_of_eq. apply tasks_of_ok. Qed.

  Lemma Inv_start s : r_cl s = c0 -> r_tr s = [] -> Inv s.
  Proof.
    intros C T. unfold PipelineMonC02a.Inv. rewrite C, T. split; [exact I|]. apply coh_cur0.
  Qed.

  Lemma Inv_pre_tasks s : Inv s -> Inv (pre_tasks sc c0 s).
  Proof.
    intros I0. unfold pre_tasks. apply Inv_ev.
    eapply sstep_Inv; [|exact I0].
    apply (step_fold (Qs) Co Co_refl Co_trans). intros; apply s_ev.
  Qed.

  Theorem run_state_Inv : Inv (run_state sc c0).
  Proof.
    destruct (run_state_shape sc c0) as [s C T|s C T _ _|s4 SO _ _|s4 prev SO _ _ _].
    - apply Inv_ev, Inv_start; assumption.
    - apply Inv_ev, Inv_start; assumption.
    - apply Inv_ev, Inv_pre_tasks, Inv_start; apply SO.
    - apply w_run_tasks; [exact plan_of_local|exact plan_of_tasks_ok|].
      apply Inv_pre_tasks, Inv_start; apply SO.
  Qed.

  Lemma local_ids_locals_of : local_ids sc = map l_id (locals_of sc).
  Proof. unfold local_ids, locals_of. destruct (o_destroy (sc_opts sc)); reflexivity. Qed.

  (* the static clauses, from the authorisation theorem *)
  Lemma run_stat : Forall (stat sc c0) (out_trace (run sc c0)).
  Proof.
    pose proof (auth_run sc c0) as A. destruct (run_plan sc c0) as [[pl0 locals]|] eqn:RP.
    - pose proof (run_plan_locals sc c0 pl0 locals RP) as EL. fold (locals_of sc) in EL.
      eapply Forall_impl; [|exact A]. intros it Q.
      destruct it as [r ok m st| | |]; try exact I.
      destruct r as [i|l|l| |i d|i s d|i|i pre p]; try exact I; cbn [Qa stat] in *.
      + rewrite local_ids_locals_of, <- EL. apply (run_plan_apply_valid sc c0 pl0 locals i RP Q).
      + rewrite local_ids_locals_of, <- EL. apply (run_plan_apply_valid sc c0 pl0 locals i RP Q).
      + destruct Q as [c [uids [Hc [<- [[K [CP [NS _]]] [-> ->]]]]]].
        destruct (run_plan_prune sc c0 pl0 locals c RP Hc) as [F [I0 [NL _]]].
        exists c. split; [exact F|]. split; [exact I0|]. split; [rewrite local_ids_locals_of, <- EL; exact NL|].
        split; [exact CP|]. split; [exact K|]. split; [|split; reflexivity].
        destruct (o_destroy (sc_opts sc)) eqn:ED; [reflexivity|]. cbn [negb andb].
        destruct (u_kind (uinfo_of sc (c_id c))) eqn:EK; try reflexivity.
        rewrite <- (NS eq_refl eq_refl), EL. unfold locals_of. rewrite ED. reflexivity.
    - apply Forall_forall. intros it Hit. destruct it as [r ok m st| | |]; try exact I.
      exfalso. exact (A r ok m st Hit).
  Qed.

  Theorem monitor_C02_walk_inj : uid_inj c0 ->
    c02_walk sc c0 (map (fun c => (c_id c, c_owner c, c_uid c)) (objs c0)) [] (out_trace (run sc c0)) = true.
  Proof.
    intros HU. apply (walk_ok sc c0 HU).
    - apply from0_cur0.
    - intros j [].
    - exact run_stat.
    - rewrite out_trace_run. apply Walk_app. split; [apply run_state_Inv|]. cbn. auto.
  Qed.
End RunW.

(* hypothesis used: only the fourth clause of WF (one UID per object of the initial cluster) *)
Theorem monitor_C02_walk : forall sc c0, WF sc c0 ->
  c02_walk sc c0 (map (fun c => (c_id c, c_owner c, c_uid c)) (objs c0)) [] (out_trace (run sc c0)) = true.
Proof. intros sc c0 [_ [_ [_ [W _]]]]. apply monitor_C02_walk_inj. exact W. Qed.

Print Assumptions monitor_C02_walk.
