(* Hand model of k8s.io/kubectl/pkg/polymorphichelpers/rollout_status.go
   (v0.31.1): DeploymentStatusViewer, DaemonSetStatusViewer,
   StatefulSetStatusViewer (.Status with revision = 0), over the same trees.
   The viewers first convert to the typed apps/v1 object: an absent or null
   field becomes the zero value, pointer fields (spec.replicas,
   rollingUpdate, partition) become nil.  The model covers well-typed trees
   (the conversion error path is not modelled); int32 fields are read as Z
   without wrap-around (API-validated objects have 0 <= replicas, partition).
   Validated against the real viewers by the C08 harness.  No proofs here. *)
From Coq Require Import List Bool ZArith String.
From CliUtils Require Import Base.Json Model.KStatus.
Import ListNotations.
Local Open Scope string_scope.

Inductive kres := KDone | KWaiting | KError.

Definition typed_int (j : jv) (p : list string) : Z := get_int_field j p 0.
Definition typed_ptr (j : jv) (p : list string) : option Z :=
  match nested_field j p with Found (JInt z) => Some z | _ => None end.
Definition typed_str (j : jv) (p : list string) : string := get_string_field j p "".
Definition typed_struct_ptr (j : jv) (p : list string) : bool :=
  match nested_field j p with Found (JObj _) => true | _ => false end.

(* deploymentutil.GetDeploymentCondition: the first condition of the type *)
Definition first_of_type (cs : list bcond) (ty : string) : option bcond :=
  find (fun c => c_type c =? ty) cs.

Definition kubectl_deployment (j : jv) (cs : list bcond) : kres :=
  if (typed_int j p_generation <=? typed_int j p_observed)%Z then
    let timed_out := match first_of_type cs "Progressing" with
                     | Some c => c_reason c =? "ProgressDeadlineExceeded"
                     | None => false
                     end in
    if timed_out then KError
    else
      let updated := typed_int j ["status"; "updatedReplicas"] in
      let lagging := match typed_ptr j ["spec"; "replicas"] with
                     | Some r => (updated <? r)%Z
                     | None => false
                     end in
      if lagging then KWaiting
      else if (typed_int j ["status"; "replicas"] >? updated)%Z then KWaiting
      else if (typed_int j ["status"; "availableReplicas"] <? updated)%Z then KWaiting
      else KDone
  else KWaiting.

Definition kubectl_daemonset (j : jv) : kres :=
  if negb (typed_str j ["spec"; "updateStrategy"; "type"] =? "RollingUpdate") then KError
  else if (typed_int j p_generation <=? typed_int j p_observed)%Z then
    let desired := typed_int j ["status"; "desiredNumberScheduled"] in
    if (typed_int j ["status"; "updatedNumberScheduled"] <? desired)%Z then KWaiting
    else if (typed_int j ["status"; "numberAvailable"] <? desired)%Z then KWaiting
    else KDone
  else KWaiting.

Definition kubectl_statefulset (j : jv) : kres :=
  if negb (typed_str j ["spec"; "updateStrategy"; "type"] =? "RollingUpdate") then KError
  else
    let obs := typed_int j p_observed in
    if (obs =? 0)%Z || (typed_int j p_generation >? obs)%Z then KWaiting
    else
      let spec := typed_ptr j ["spec"; "replicas"] in
      let not_ready := match spec with
                       | Some r => (typed_int j ["status"; "readyReplicas"] <? r)%Z
                       | None => false
                       end in
      if not_ready then KWaiting
      else if typed_struct_ptr j ["spec"; "updateStrategy"; "rollingUpdate"] then
        match spec, typed_ptr j ["spec"; "updateStrategy"; "rollingUpdate"; "partition"] with
        | Some r, Some p =>
            if (typed_int j ["status"; "updatedReplicas"] <? r - p)%Z then KWaiting else KDone
        | _, _ => KDone
        end
      else if negb (typed_str j ["status"; "updateRevision"] =? typed_str j ["status"; "currentRevision"])
      then KWaiting
      else KDone.
