(* Model of pkg/object/graph/graph.go (Graph, AddVertex, AddEdge, isAdjacent,
   removeVertex, Sort) and of HydrateSetList / ReverseSetList from depends.go,
   generic in the vertex type.  No proofs here.

   Graph.edges is a Go map from vertex to adjacency slice.  The model keeps it
   as an association list in insertion order; Go's map iteration order is
   unspecified, so the order of a layer returned by Sort is compared as a set
   by the correspondence.  Graph.reverseEdges is only read by Dependents and
   never by Sort; it is not modelled. *)
From Coq Require Import List Bool Arith.
From CliUtils Require Import Model.ObjSet.
Import ListNotations.

Section Graph.
  Variable V : Type.
  Variable eqb : V -> V -> bool.
  Variable ltb : V -> V -> bool.   (* ordering.less on vertices *)

  Definition gmap := list (V * list V).

  Fixpoint has_key (g : gmap) (v : V) : bool :=
    match g with
    | [] => false
    | (k, _) :: t => eqb k v || has_key t v
    end.

  (* g.edges[v] (nil when absent) *)
  Fixpoint adj_of (g : gmap) (v : V) : list V :=
    match g with
    | [] => []
    | (k, a) :: t => if eqb k v then a else adj_of t v
    end.

  (* Graph.AddVertex *)
  Definition add_vertex (g : gmap) (v : V) : gmap :=
    if has_key g v then g else g ++ [(v, [])].

  (* Graph.isAdjacent *)
  Definition is_adjacent (g : gmap) (from to : V) : bool :=
    has_key g from && mem eqb to (adj_of g from).

  (* g.edges[from] = append(g.edges[from], to) *)
  Fixpoint append_adj (g : gmap) (from to : V) : gmap :=
    match g with
    | [] => []
    | (k, a) :: t =>
        if eqb k from then (k, a ++ [to]) :: t else (k, a) :: append_adj t from to
    end.

  (* Graph.AddEdge *)
  Definition add_edge (g : gmap) (from to : V) : gmap :=
    let g1 := add_vertex g from in
    let g2 := add_vertex g1 to in
    if is_adjacent g2 from to then g2 else append_adj g2 from to.

  Definition add_edges (g : gmap) (es : list (V * V)) : gmap :=
    fold_left (fun g e => add_edge g (fst e) (snd e)) es g.

  (* graph.New, then AddVertex for every element of vs, then AddEdge for every
     pair of es, in list order *)
  Definition build (vs : list V) (es : list (V * V)) : gmap :=
    add_edges (fold_left add_vertex vs []) es.

  (* removeVertex: adj.Remove(r) on every adjacency slice (swap-with-last
     removal of the first occurrence, see ObjSet.remove), then delete(edges, r) *)
  Definition remove_vertex (edges : gmap) (r : V) : gmap :=
    filter (fun p => negb (eqb (fst p) r))
           (map (fun p => (fst p, remove eqb (snd p) r)) edges).

  Definition is_nil {A} (l : list A) : bool := match l with [] => true | _ => false end.

  (* the vertices with len(adj) == 0 *)
  Definition leaves (edges : gmap) : list V :=
    map fst (filter (fun p => is_nil (snd p)) edges).

  (* insertion sort: stands for sort.Sort with ordering.less; for a strict
     total order on distinct elements every sorting algorithm agrees *)
  Fixpoint insert (x : V) (l : list V) : list V :=
    match l with
    | [] => [x]
    | h :: t => if ltb x h then x :: l else h :: insert x t
    end.
  Definition isort (l : list V) : list V := fold_right insert [] l.

  (* edgeMapToList without its final sort (compared as a set) *)
  Definition edge_list (edges : gmap) : list (V * V) :=
    flat_map (fun p => map (fun w => (fst p, w)) (snd p)) edges.

  (* the cyclic dependency error: (edgeMapKeys(edges), edgeMapToList(edges)) *)
  Definition cyc_err := option (list V * list (V * V)).

  (* the `for len(edges) > 0` loop of Graph.Sort.  One unit of fuel per
     iteration; None = out of fuel (never happens with fuel = number of
     vertices, see GraphProofs.sort_total). *)
  Fixpoint sort_loop (fuel : nat) (edges : gmap) (sorted : list (list V))
    : option (list (list V) * cyc_err) :=
    match edges with
    | [] => Some (sorted, None)
    | _ :: _ =>
        match fuel with
        | O => None
        | S f =>
            let lv := leaves edges in
            match lv with
            | [] => Some (sorted, Some (isort (map fst edges), edge_list edges))
            | _ :: _ => sort_loop f (fold_left remove_vertex lv edges) (sorted ++ [lv])
            end
        end
    end.

  (* Graph.Sort *)
  Definition sort (g : gmap) : option (list (list V) * cyc_err) :=
    sort_loop (List.length g) g [].

  (* HydrateSetList on identifiers: per layer keep the ids that belong to the
     given object list, drop the layer when nothing is left, sort it *)
  Definition hydrate (layers : list (list V)) (ids : list V) : list (list V) :=
    flat_map (fun l =>
                let cur := filter (fun v => mem eqb v ids) l in
                if is_nil cur then [] else [isort cur]) layers.

  (* ReverseSetList: reverse the outer list, then every inner list *)
  Definition reverse_set_list (l : list (list V)) : list (list V) :=
    map (@rev V) (rev l).
End Graph.

Arguments has_key {V} eqb g v.
Arguments adj_of {V} eqb g v.
Arguments add_vertex {V} eqb g v.
Arguments is_adjacent {V} eqb g from to.
Arguments append_adj {V} eqb g from to.
Arguments add_edge {V} eqb g from to.
Arguments add_edges {V} eqb g es.
Arguments build {V} eqb vs es.
Arguments remove_vertex {V} eqb edges r.
Arguments leaves {V} edges.
Arguments insert {V} ltb x l.
Arguments isort {V} ltb l.
Arguments edge_list {V} edges.
Arguments sort_loop {V} eqb ltb fuel edges sorted.
Arguments sort {V} eqb ltb g.
Arguments hydrate {V} eqb ltb layers ids.
Arguments reverse_set_list {V} l.
