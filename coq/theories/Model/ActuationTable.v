(* Model of pkg/inventory/manager.go (Manager over actuation.Inventory.Status.Objects):
   a list of records keyed by object reference, replace-or-append.  No proofs here. *)
From Coq Require Import List Bool Arith NArith ZArith String.
Import ListNotations.

Inductive strategy := SApply | SDelete.
Inductive actuation := APending | ASucceeded | ASkipped | AFailed.
Inductive reconcile := RPending | RSucceeded | RSkipped | RFailed | RTimeout.

Definition strategy_eqb (a b : strategy) : bool :=
  match a, b with SApply, SApply | SDelete, SDelete => true | _, _ => false end.
Definition actuation_eqb (a b : actuation) : bool :=
  match a, b with
  | APending, APending | ASucceeded, ASucceeded | ASkipped, ASkipped | AFailed, AFailed => true
  | _, _ => false end.
Definition reconcile_eqb (a b : reconcile) : bool :=
  match a, b with
  | RPending, RPending | RSucceeded, RSucceeded | RSkipped, RSkipped
  | RFailed, RFailed | RTimeout, RTimeout => true
  | _, _ => false end.

Section Table.
  Variable A : Type.
  Variable eqb : A -> A -> bool.

  (* uid: the empty UID is 0; generation is an int64 modelled as Z *)
  Record rec := mkRec { r_id : A; r_str : strategy; r_act : actuation;
                        r_rec : reconcile; r_uid : N; r_gen : Z }.
  Definition table := list rec.

  (* Manager.ObjectStatus *)
  Fixpoint lookup (t : table) (i : A) : option rec :=
    match t with
    | [] => None
    | r :: t' => if eqb (r_id r) i then Some r else lookup t' i
    end.

  (* Manager.SetObjectStatus: replace the first record with the same
     reference, else append *)
  Fixpoint set_status (t : table) (n : rec) : table :=
    match t with
    | [] => [n]
    | r :: t' => if eqb (r_id r) (r_id n) then n :: t' else r :: set_status t' n
    end.

  (* in-place update of the reconcile field through the returned pointer *)
  Fixpoint set_reconcile (t : table) (i : A) (s : reconcile) : option table :=
    match t with
    | [] => None
    | r :: t' =>
        if eqb (r_id r) i
        then Some (mkRec (r_id r) (r_str r) (r_act r) s (r_uid r) (r_gen r) :: t')
        else match set_reconcile t' i s with
             | Some t'' => Some (r :: t'')
             | None => None
             end
    end.

  Definition with_actuation (t : table) (s : strategy) (a : actuation) : list A :=
    map r_id (filter (fun r => strategy_eqb (r_str r) s && actuation_eqb (r_act r) a) t).
  Definition with_reconcile (t : table) (s : reconcile) : list A :=
    map r_id (filter (fun r => reconcile_eqb (r_rec r) s) t).

  Definition is_actuation (t : table) (i : A) (s : strategy) (a : actuation) : bool :=
    match lookup t i with
    | Some r => strategy_eqb (r_str r) s && actuation_eqb (r_act r) a
    | None => false
    end.
  Definition is_reconcile (t : table) (i : A) (s : reconcile) : bool :=
    match lookup t i with
    | Some r => reconcile_eqb (r_rec r) s
    | None => false
    end.

  (* Manager.AppliedResourceUID (after the fix: unknown id => ("", false)) *)
  Definition applied_uid (t : table) (i : A) : N * bool :=
    match lookup t i with
    | Some r => (r_uid r, strategy_eqb (r_str r) SApply && actuation_eqb (r_act r) ASucceeded)
    | None => (0%N, false)
    end.
  (* Manager.AppliedGeneration *)
  Definition applied_gen (t : table) (i : A) : Z * bool :=
    match lookup t i with
    | Some r => (r_gen r, true)
    | None => (0%Z, false)
    end.
  (* Manager.AppliedResourceUIDs: non-empty UIDs of successful applies (a set) *)
  Definition applied_uids (t : table) : list N :=
    map r_uid (filter (fun r => strategy_eqb (r_str r) SApply && actuation_eqb (r_act r) ASucceeded
                                 && negb (N.eqb (r_uid r) 0)) t).

  (* ---- operations of the Manager API and their observable results ------- *)
  Inductive op :=
  | OpAdd (i : A) (s : strategy) (a : actuation) (uid : N) (gen : Z)
      (* AddPendingApply.. AddSuccessfulDelete: uid/gen are 0 except for
         AddSuccessfulApply (uid, gen) and AddSuccessfulDelete (uid) *)
  | OpSetRec (i : A) (s : reconcile)
  | OpIsAct (i : A) (s : strategy) (a : actuation)
  | OpIsRec (i : A) (s : reconcile)
  | OpListAct (s : strategy) (a : actuation)
  | OpListRec (s : reconcile)
  | OpUid (i : A)
  | OpGen (i : A)
  | OpUids
  | OpStatus (i : A).

  Inductive obs :=
  | ObUnit
  | ObErr (failed : bool)
  | ObBool (b : bool)
  | ObIds (l : list A)
  | ObUid (u : N) (ok : bool)
  | ObGen (g : Z) (ok : bool)
  | ObUids (l : list N)
  | ObStatus (found : bool) (s : strategy) (a : actuation) (r : reconcile) (u : N) (g : Z)
  | ObPanic.

  Definition step (t : table) (o : op) : table * obs :=
    match o with
    | OpAdd i s a u g => (set_status t (mkRec i s a RPending u g), ObUnit)
    | OpSetRec i s =>
        match set_reconcile t i s with
        | Some t' => (t', ObErr false)
        | None => (t, ObErr true)
        end
    | OpIsAct i s a => (t, ObBool (is_actuation t i s a))
    | OpIsRec i s => (t, ObBool (is_reconcile t i s))
    | OpListAct s a => (t, ObIds (with_actuation t s a))
    | OpListRec s => (t, ObIds (with_reconcile t s))
    | OpUid i => let '(u, ok) := applied_uid t i in (t, ObUid u ok)
    | OpGen i => let '(g, ok) := applied_gen t i in (t, ObGen g ok)
    | OpUids => (t, ObUids (applied_uids t))
    | OpStatus i =>
        match lookup t i with
        | Some r => (t, ObStatus true (r_str r) (r_act r) (r_rec r) (r_uid r) (r_gen r))
        | None => (t, ObStatus false SApply APending RPending 0%N 0%Z)
        end
    end.

  Fixpoint run (t : table) (ops : list op) : table * list obs :=
    match ops with
    | [] => (t, [])
    | o :: ops' =>
        let '(t1, ob) := step t o in
        let '(t2, obs') := run t1 ops' in
        (t2, ob :: obs')
    end.
End Table.

Arguments mkRec {A}.
Arguments r_id {A}. Arguments r_str {A}. Arguments r_act {A}.
Arguments r_rec {A}. Arguments r_uid {A}. Arguments r_gen {A}.
Arguments lookup {A}. Arguments set_status {A}. Arguments set_reconcile {A}.
Arguments with_actuation {A}. Arguments with_reconcile {A}.
Arguments is_actuation {A}. Arguments is_reconcile {A}.
Arguments applied_uid {A}. Arguments applied_gen {A}. Arguments applied_uids {A}.
Arguments OpAdd {A}. Arguments OpSetRec {A}. Arguments OpIsAct {A}. Arguments OpIsRec {A}.
Arguments OpListAct {A}. Arguments OpListRec {A}. Arguments OpUid {A}. Arguments OpGen {A}.
Arguments OpUids {A}. Arguments OpStatus {A}.
Arguments ObUnit {A}. Arguments ObErr {A}. Arguments ObBool {A}. Arguments ObIds {A}.
Arguments ObUid {A}. Arguments ObGen {A}. Arguments ObUids {A}. Arguments ObStatus {A}.
Arguments ObPanic {A}.
Arguments step {A}. Arguments run {A}.
