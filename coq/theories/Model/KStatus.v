(* Executable model of sigs.k8s.io/cli-utils/pkg/kstatus/status
   (status.go, generic.go, core.go, util.go), transcribed function by function
   from the Go code as it is in /repo.  One `if` of the Go code is one `if`
   here.  The clock enters only through the Pod grace window
   (`time.Now().Add(-ScheduleWindow).Before(creationTimestamp)`), which is the
   explicit boolean `w`.

   No path of the current code can panic on a JSON-shaped tree: every type
   assertion in the package is of the checked `v, ok := x.(T)` form
   (getCrashLoopingContainers since the repair; Augment), every map index is
   on a map obtained through such an assertion, and there is no slice
   indexing.  So `outcome` has no panic constructor.

   No proofs in this file. *)
From Coq Require Import List Bool ZArith String Ascii.
From CliUtils Require Import Base.Json.
Import ListNotations.
Local Open Scope string_scope.

(* status.go: the Status constants *)
Inductive status := InProgress | Failed | Current | Terminating | NotFound | Unknown.

(* Result.Conditions projected to (Type, Status) *)
Definition rcond := (string * string)%type.
Inductive outcome :=
| Ok (s : status) (cs : list rcond)       (* (result, nil) *)
| Err.                                    (* (nil, error) *)

(* util.go: newReconcilingCondition / newStalledCondition / newInProgressStatus / newFailedStatus *)
Definition reconciling_cond : rcond := ("Reconciling", "True").
Definition stalled_cond : rcond := ("Stalled", "True").
Definition new_in_progress : outcome := Ok InProgress [reconciling_cond].
Definition new_failed : outcome := Ok Failed [stalled_cond].
(* &Result{Status: CurrentStatus, Conditions: []Condition{}} *)
Definition current : outcome := Ok Current [].
Definition terminating : outcome := Ok Terminating [].

Definition p_deletion := ["metadata"; "deletionTimestamp"].
Definition p_generation := ["metadata"; "generation"].
Definition p_observed := ["status"; "observedGeneration"].

(* generic.go checkGeneration: None = (nil, nil) *)
Definition check_generation (j : jv) : option outcome :=
  match nested_int64 j p_generation with
  | AErr => Some Err
  | Absent => None
  | Found g =>
      match nested_int64 j p_observed with
      | AErr => Some Err
      | Absent => None
      | Found o => if Z.eqb o g then None else Some new_in_progress
      end
  end.

(* generic.go: the loop over the standard conditions *)
Fixpoint std_loop (cs : list bcond) : option outcome :=
  match cs with
  | [] => None
  | c :: t =>
      if (c_type c =? "Reconciling") && (c_status c =? "True") then Some new_in_progress
      else if (c_type c =? "Stalled") && (c_status c =? "True") then Some new_failed
      else std_loop t
  end.

(* generic.go checkGenericProperties: None = (nil, nil) *)
Definition check_generic (j : jv) : option outcome :=
  match nested_string j p_deletion with
  | AErr => Some Err
  | Found s =>
      if negb (s =? "") then Some terminating
      else
        match check_generation j with
        | Some o => Some o
        | None =>
            match get_object_with_conditions j with
            | None => Some Err
            | Some cs => std_loop cs
            end
        end
  | Absent =>
      match check_generation j with
      | Some o => Some o
      | None =>
          match get_object_with_conditions j with
          | None => Some Err
          | Some cs => std_loop cs
          end
      end
  end.

(* ---- kind dispatch: Unstructured.GroupVersionKind + GetLegacyConditionsFn -- *)
Definition slash : ascii := "/"%char.
Fixpoint count_slash (s : string) : nat :=
  match s with
  | EmptyString => 0
  | String c t => (if Ascii.eqb c slash then 1 else 0) + count_slash t
  end.
Fixpoint before_slash (s : string) : string :=
  match s with
  | EmptyString => EmptyString
  | String c t => if Ascii.eqb c slash then EmptyString else String c (before_slash t)
  end.
(* schema.ParseGroupVersion, group part only; None = error *)
Definition parse_group (gv : string) : option string :=
  if (gv =? "") || (gv =? "/") then Some ""
  else match count_slash gv with
       | 0 => Some ""
       | 1 => Some (before_slash gv)
       | _ => None
       end.
(* (g, k) of u.GroupVersionKind(): a parse error gives the empty GVK *)
Definition group_kind (j : jv) : string * string :=
  match parse_group (get_nested_string j ["apiVersion"]) with
  | None => ("", "")
  | Some g => (g, get_nested_string j ["kind"])
  end.
Definition kind_key (j : jv) : string :=
  let '(g, k) := group_kind j in
  if g =? "" then k else g ++ "/" ++ k.

Inductive legacy :=
| LService | LPod | LAlwaysReady | LPvc | LSts | LDaemonSet | LDeployment | LReplicaSet
| LPdb | LJob | LCrd.

(* core.go legacyTypes *)
Definition legacy_of_key (key : string) : option legacy :=
  if key =? "Service" then Some LService
  else if key =? "Pod" then Some LPod
  else if key =? "Secret" then Some LAlwaysReady
  else if key =? "PersistentVolumeClaim" then Some LPvc
  else if key =? "apps/StatefulSet" then Some LSts
  else if key =? "apps/DaemonSet" then Some LDaemonSet
  else if key =? "extensions/DaemonSet" then Some LDaemonSet
  else if key =? "apps/Deployment" then Some LDeployment
  else if key =? "extensions/Deployment" then Some LDeployment
  else if key =? "apps/ReplicaSet" then Some LReplicaSet
  else if key =? "extensions/ReplicaSet" then Some LReplicaSet
  else if key =? "policy/PodDisruptionBudget" then Some LPdb
  else if key =? "batch/CronJob" then Some LAlwaysReady
  else if key =? "ConfigMap" then Some LAlwaysReady
  else if key =? "batch/Job" then Some LJob
  else if key =? "apiextensions.k8s.io/CustomResourceDefinition" then Some LCrd
  else None.

(* ---- core.go: per-kind rules -------------------------------------------- *)
Definition max_int32 : Z := 2147483647%Z.

(* stsConditions *)
Definition sts_conditions (j : jv) : outcome :=
  let update_strategy := get_string_field j ["spec"; "updateStrategy"; "type"] "" in
  if update_strategy =? "OnDelete" then current
  else
    let spec_replicas := get_int_field j ["spec"; "replicas"] 1 in
    let ready_replicas := get_int_field j ["status"; "readyReplicas"] 0 in
    let current_replicas := get_int_field j ["status"; "currentReplicas"] 0 in
    let updated_replicas := get_int_field j ["status"; "updatedReplicas"] 0 in
    let status_replicas := get_int_field j ["status"; "replicas"] 0 in
    let partition := get_int_field j ["spec"; "updateStrategy"; "rollingUpdate"; "partition"] (-1) in
    if (spec_replicas >? status_replicas)%Z then new_in_progress
    else if (spec_replicas >? ready_replicas)%Z then new_in_progress
    else if (status_replicas >? spec_replicas)%Z then new_in_progress
    else if negb (partition =? -1)%Z then
      if (updated_replicas <? sub64 spec_replicas partition)%Z then new_in_progress
      else current
    else if (spec_replicas >? current_replicas)%Z then new_in_progress
    else
      let current_revision := get_string_field j ["status"; "currentRevision"] "" in
      let updated_revision := get_string_field j ["status"; "updateRevision"] "" in
      if negb (current_revision =? updated_revision) then new_in_progress
      else current.

(* deploymentConditions: the loop over conditions; None = the early
   `return Failed` (ProgressDeadlineExceeded) *)
Fixpoint deploy_loop (cs : list bcond) (progressing available : bool) : option (bool * bool) :=
  match cs with
  | [] => Some (progressing, available)
  | c :: t =>
      if c_type c =? "Progressing" then
        if c_reason c =? "ProgressDeadlineExceeded" then None
        else
          deploy_loop t
            (if (c_status c =? "True") && (c_reason c =? "NewReplicaSetAvailable") then true else progressing)
            available
      else if c_type c =? "Available" then
        deploy_loop t progressing (if c_status c =? "True" then true else available)
      else deploy_loop t progressing available
  end.

Definition deployment_conditions (j : jv) : outcome :=
  let progress_deadline := get_int_field j ["spec"; "progressDeadlineSeconds"] max_int32 in
  let progressing0 := if (progress_deadline =? max_int32)%Z then true else false in
  match get_object_with_conditions j with
  | None => Err
  | Some cs =>
      match deploy_loop cs progressing0 false with
      | None => new_failed
      | Some (progressing, available) =>
          let spec_replicas := get_int_field j ["spec"; "replicas"] 1 in
          let status_replicas := get_int_field j ["status"; "replicas"] 0 in
          let updated_replicas := get_int_field j ["status"; "updatedReplicas"] 0 in
          let ready_replicas := get_int_field j ["status"; "readyReplicas"] 0 in
          let available_replicas := get_int_field j ["status"; "availableReplicas"] 0 in
          if (spec_replicas >? status_replicas)%Z then new_in_progress
          else if (spec_replicas >? updated_replicas)%Z then new_in_progress
          else if (status_replicas >? spec_replicas)%Z then new_in_progress
          else if (updated_replicas >? available_replicas)%Z then new_in_progress
          else if (spec_replicas >? ready_replicas)%Z then new_in_progress
          else if negb progressing then new_in_progress
          else if negb available then new_in_progress
          else current
      end
  end.

(* replicasetConditions *)
Fixpoint rs_loop (cs : list bcond) : bool :=   (* true = early return InProgress(ReplicaFailure) *)
  match cs with
  | [] => false
  | c :: t => if (c_type c =? "ReplicaFailure") && (c_status c =? "True") then true else rs_loop t
  end.

Definition replicaset_conditions (j : jv) : outcome :=
  match get_object_with_conditions j with
  | None => Err
  | Some cs =>
      if rs_loop cs then new_in_progress
      else
        let spec_replicas := get_int_field j ["spec"; "replicas"] 1 in
        let status_replicas := get_int_field j ["status"; "replicas"] 0 in
        let ready_replicas := get_int_field j ["status"; "readyReplicas"] 0 in
        let available_replicas := get_int_field j ["status"; "availableReplicas"] 0 in
        let fully_labelled := get_int_field j ["status"; "fullyLabeledReplicas"] 0 in
        if (spec_replicas >? fully_labelled)%Z then new_in_progress
        else if (spec_replicas >? available_replicas)%Z then new_in_progress
        else if (spec_replicas >? ready_replicas)%Z then new_in_progress
        else if (status_replicas >? spec_replicas)%Z then new_in_progress
        else current
  end.

(* checkGenerationSet: None = (nil, nil) *)
Definition check_generation_set (j : jv) : option outcome :=
  match nested_int64 j p_generation with
  | AErr => Some Err
  | Absent => Some new_in_progress
  | Found _ =>
      match nested_int64 j p_observed with
      | AErr => Some Err
      | Absent => Some new_in_progress
      | Found _ => None
      end
  end.

(* daemonsetConditions *)
Definition daemonset_conditions (j : jv) : outcome :=
  match check_generation_set j with
  | Some o => o
  | None =>
      let desired := get_int_field j ["status"; "desiredNumberScheduled"] (-1) in
      let current_n := get_int_field j ["status"; "currentNumberScheduled"] 0 in
      let updated := get_int_field j ["status"; "updatedNumberScheduled"] 0 in
      let available := get_int_field j ["status"; "numberAvailable"] 0 in
      let ready := get_int_field j ["status"; "numberReady"] 0 in
      if (desired =? -1)%Z then new_in_progress
      else if (desired >? current_n)%Z then new_in_progress
      else if (desired >? updated)%Z then new_in_progress
      else if (desired >? available)%Z then new_in_progress
      else if (desired >? ready)%Z then new_in_progress
      else current
  end.

(* pvcConditions *)
Definition pvc_conditions (j : jv) : outcome :=
  let phase := get_string_field j ["status"; "phase"] "unknown" in
  if negb (phase =? "Bound") then new_in_progress else current.

(* util.go getConditionWithStatus / hasConditionWithStatus *)
Fixpoint get_cond_with_status (cs : list bcond) (ty st : string) : option bcond :=
  match cs with
  | [] => None
  | c :: t => if (c_type c =? ty) && (c_status c =? st) then Some c else get_cond_with_status t ty st
  end.
Definition has_cond_with_status (cs : list bcond) (ty st : string) : bool :=
  match get_cond_with_status cs ty st with Some _ => true | None => false end.

(* getCrashLoopingContainers: one list item contributes a container name iff
   every checked step succeeds and the reason is CrashLoopBackOff *)
Definition item_crash_looping (item : jv) : bool :=
  match item with
  | JObj cs =>
      match lookup "name" cs with
      | Some (JStr _) =>
          match lookup "state" cs with
          | Some (JObj st) =>
              match lookup "waiting" st with
              | Some (JObj ws) =>
                  match lookup "reason" ws with
                  | Some (JStr r) => r =? "CrashLoopBackOff"
                  | _ => false
                  end
              | _ => false
              end
          | _ => false
          end
      | _ => false
      end
  | _ => false
  end.
(* number of collected container names *)
Fixpoint crash_names (items : list jv) : nat :=
  match items with
  | [] => 0
  | i :: t => (if item_crash_looping i then 1 else 0) + crash_names t
  end.
(* (isCrashLooping, err) *)
Definition get_crash_looping (j : jv) : option bool :=
  match nested_slice j ["status"; "containerStatuses"] with
  | AErr => None
  | Absent => Some false
  | Found items => Some (Nat.ltb 0 (crash_names items))
  end.

(* podConditions *)
Definition pod_conditions (j : jv) (w : bool) : outcome :=
  match get_object_with_conditions j with
  | None => Err
  | Some cs =>
      let phase := get_string_field j ["status"; "phase"] "" in
      if phase =? "Succeeded" then current
      else if phase =? "Failed" then current
      else if phase =? "Running" then
        if has_cond_with_status cs "Ready" "True" then current
        else
          match get_crash_looping j with
          | None => Err
          | Some true => new_failed
          | Some false => new_in_progress
          end
      else if phase =? "Pending" then
        match get_cond_with_status cs "PodScheduled" "False" with
        | Some c =>
            if c_reason c =? "Unschedulable" then
              if w then new_in_progress else new_failed
            else new_in_progress
        | None => new_in_progress
        end
      else if phase =? "" then new_in_progress
      else Err
  end.

(* pdbConditions / alwaysReady *)
Definition pdb_conditions : outcome := current.
Definition always_ready : outcome := current.

(* jobConditions: loop; None = fall through *)
Fixpoint job_loop (cs : list bcond) : option outcome :=
  match cs with
  | [] => None
  | c :: t =>
      if c_type c =? "Complete" then
        if c_status c =? "True" then Some current else job_loop t
      else if c_type c =? "Failed" then
        if c_status c =? "True" then Some new_failed else job_loop t
      else job_loop t
  end.
Definition job_conditions (j : jv) : outcome :=
  let starttime := get_string_field j ["status"; "startTime"] "" in
  match get_object_with_conditions j with
  | None => Err
  | Some cs =>
      match job_loop cs with
      | Some o => o
      | None => if starttime =? "" then new_in_progress else current
      end
  end.

(* serviceConditions *)
Definition service_conditions (j : jv) : outcome :=
  let spec_type := get_string_field j ["spec"; "type"] "ClusterIP" in
  let spec_cluster_ip := get_string_field j ["spec"; "clusterIP"] "" in
  if spec_type =? "LoadBalancer" then
    if spec_cluster_ip =? "" then new_in_progress else current
  else current.

(* crdConditions *)
Fixpoint crd_loop (cs : list bcond) : option outcome :=
  match cs with
  | [] => None
  | c :: t =>
      if (c_type c =? "NamesAccepted") && (c_status c =? "False") then Some new_failed
      else if c_type c =? "Established" then
        if (c_status c =? "False") && negb (c_reason c =? "Installing") then Some new_failed
        else if c_status c =? "True" then Some current
        else crd_loop t
      else crd_loop t
  end.
Definition crd_conditions (j : jv) : outcome :=
  match get_object_with_conditions j with
  | None => Err
  | Some cs => match crd_loop cs with Some o => o | None => new_in_progress end
  end.

Definition legacy_fn (k : legacy) (j : jv) (w : bool) : outcome :=
  match k with
  | LService => service_conditions j
  | LPod => pod_conditions j w
  | LAlwaysReady => always_ready
  | LPvc => pvc_conditions j
  | LSts => sts_conditions j
  | LDaemonSet => daemonset_conditions j
  | LDeployment => deployment_conditions j
  | LReplicaSet => replicaset_conditions j
  | LPdb => pdb_conditions
  | LJob => job_conditions j
  | LCrd => crd_conditions j
  end.

(* status.go checkReadyCondition: the loop; None = (nil, nil) *)
Fixpoint ready_loop (cs : list bcond) : option outcome :=
  match cs with
  | [] => None
  | c :: t =>
      if negb (c_type c =? "Ready") then ready_loop t
      else if c_status c =? "True" then Some current
      else if c_status c =? "False" then Some new_in_progress
      else if c_status c =? "Unknown" then Some new_in_progress
      else ready_loop t
  end.
Definition check_ready_condition (j : jv) : option outcome :=
  match get_object_with_conditions j with
  | None => Some Err
  | Some cs => ready_loop cs
  end.

(* status.go Compute *)
Definition compute (j : jv) (w : bool) : outcome :=
  match check_generic j with
  | Some o => o
  | None =>
      match legacy_of_key (kind_key j) with
      | Some k => legacy_fn k j w
      | None =>
          match check_ready_condition j with
          | Some o => o
          | None => current
          end
      end
  end.

Definition status_of (o : outcome) : option status :=
  match o with Ok s _ => Some s | Err => None end.

(* ---- status.go Augment ---------------------------------------------------
   `t` is time.Now() formatted, `rsn`/`msg` the Reason and Message of the
   (single) result condition: text the model does not compute. *)
(* the inner loop over the existing conditions for one result condition;
   None = one of the three `errors.New` returns; the bool is `present` *)
Fixpoint apply_cond (ty st rsn msg t : string) (items : list jv) : option (list jv * bool) :=
  match items with
  | [] => Some ([], false)
  | c :: rest =>
      match c with
      | JObj kv =>
          match lookup "type" kv with
          | Some (JStr cty) =>
              if cty =? ty then
                match lookup "status" kv with
                | Some (JStr cst) =>
                    let kv1 := if negb (cst =? st) then set_key "lastTransitionTime" (JStr t) kv else kv in
                    let kv2 := set_key "status" (JStr st) kv1 in
                    let kv3 := set_key "lastUpdateTime" (JStr t) kv2 in
                    let kv4 := set_key "reason" (JStr rsn) kv3 in
                    let kv5 := set_key "message" (JStr msg) kv4 in
                    match apply_cond ty st rsn msg t rest with
                    | None => None
                    | Some (r, _) => Some (JObj kv5 :: r, true)
                    end
                | _ => None
                end
              else
                match apply_cond ty st rsn msg t rest with
                | None => None
                | Some (r, p) => Some (c :: r, p)
                end
          | _ => None
          end
      | _ => None
      end
  end.

Definition new_cond_item (ty st rsn msg t : string) : jv :=
  JObj [("lastTransitionTime", JStr t); ("lastUpdateTime", JStr t); ("message", JStr msg);
        ("reason", JStr rsn); ("status", JStr st); ("type", JStr ty)].

(* the outer loop over res.Conditions *)
Fixpoint augment_conds (rcs : list rcond) (rsn msg t : string) (items : list jv) : option (list jv) :=
  match rcs with
  | [] => Some items
  | (ty, st) :: more =>
      match apply_cond ty st rsn msg t items with
      | None => None
      | Some (items1, present) =>
          augment_conds more rsn msg t
            (if present then items1 else items1 ++ [new_cond_item ty st rsn msg t])
      end
  end.

(* None = Augment returned an error (the object is then unchanged: every
   mutation before the final SetNestedSlice is on NestedSlice's deep copy) *)
Definition augment (j : jv) (w : bool) (t rsn msg : string) : option jv :=
  match compute j w with
  | Err => None
  | Ok _ rcs =>
      match nested_slice j ["status"; "conditions"] with
      | AErr => None
      | Found items =>
          match augment_conds rcs rsn msg t items with
          | None => None
          | Some items' => set_nested2 j "status" "conditions" (JArr items')
          end
      | Absent =>
          match augment_conds rcs rsn msg t [] with
          | None => None
          | Some items' => set_nested2 j "status" "conditions" (JArr items')
          end
      end
  end.
