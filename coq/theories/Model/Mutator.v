(* C18 — model of ApplyTimeMutator.Mutate (pkg/apply/mutator/apply_time_mutator.go)
   and of what ApplyTask does with its result (pkg/apply/task/apply_task.go).
   Statement by statement; no proofs in this file. *)
From Coq Require Import List Bool Arith ZArith String Ascii.
From CliUtils Require Import Base.StrReplace Model.JsonPath.
Import ListNotations.
Local Open Scope string_scope.

(* mutation.ResourceReference, reduced to what Equal / ToObjMetadata compare:
   group (from Group or APIVersion), kind, name, namespace *)
Record ref := mkRef { r_group : string; r_kind : string; r_name : string; r_ns : string }.

Definition ref_eqb (a b : ref) : bool :=
  String.eqb (r_group a) (r_group b) && String.eqb (r_kind a) (r_kind b) &&
  String.eqb (r_name a) (r_name b) && String.eqb (r_ns a) (r_ns b).

(* a JSONPath expression of the annotation: inside the modelled subset, or an
   expression the library reports as malformed / matching 0 or >= 2 nodes
   (wildcards, unions, slices, "", "a", "$.a[") *)
Inductive mpath := MPath (p : path) | MOpaque.

Record subst := mkSub { s_src : ref; s_spath : mpath; s_tpath : mpath; s_token : string }.

Inductive annot := ANone | ABad | ASubs (l : list subst).

(* the world the mutator looks sources up in *)
Record env := mkEnv {
  e_scope : ref -> option bool;          (* RESTMapping: None = no mapping, Some true = namespaced *)
  e_cache : ref -> option (tv * bool);   (* ResourceCache.Get: resource, status = Current? *)
  e_cluster : ref -> option tv }.        (* dynamic client GET; None = NotFound *)

Inductive merr :=
| MEAnnotation | MESelfRef | MEMapping | MEGetSource | METargetRead | MESourceRead
| METokenType | MEWrite.

Definition merr_eqb (a b : merr) : bool :=
  match a, b with
  | MEAnnotation, MEAnnotation | MESelfRef, MESelfRef | MEMapping, MEMapping
  | MEGetSource, MEGetSource | METargetRead, METargetRead | MESourceRead, MESourceRead
  | METokenType, METokenType | MEWrite, MEWrite => true
  | _, _ => false
  end.

(* valueToString: strings as they are, int/bool via %v, everything else
   (nil, maps, lists) as JSON text, floats via %v.  The JSON / float
   renderings are not modelled: [render] is a parameter. *)
Definition value_to_string (render : tv -> string) (v : tv) : string :=
  match v with
  | TStr s => s
  | TInt z => decimal z
  | TBool true => "true"
  | TBool false => "false"
  | TNull => "null"
  | _ => render v
  end.

(* readFieldValue: exactly one match *)
Definition read_field (mp : mpath) (t : tv) : option tv :=
  match mp with
  | MOpaque => None
  | MPath p => match jget_c p t with
               | GetOk [v] => Some v
               | _ => None
               end
  end.

(* writeFieldValue: exactly one node updated *)
Definition write_field (mp : mpath) (v : tv) (t : tv) : option tv :=
  match mp with
  | MOpaque => None
  | MPath p => match jset p v t with
               | SetOk t' 1 => Some t'
               | _ => None
               end
  end.

(* getObject: validate, cache if Current, else cluster *)
Definition get_object (e : env) (r : ref) : option tv :=
  if String.eqb (r_name r) "" then None
  else if String.eqb (r_kind r) "" then None
  else match e_cache e r with
       | Some (t, true) => Some t
       | _ => e_cluster e r
       end.

(* the source reference after namespace defaulting *)
Definition eff_ref (e : env) (self r : ref) : ref :=
  match e_scope e r with
  | Some true => if String.eqb (r_ns r) "" then mkRef (r_group r) (r_kind r) (r_name r) (r_ns self) else r
  | _ => r
  end.

Definition new_value (render : tv -> string) (token : string) (target source : tv) : option tv :=
  if String.eqb token "" then Some source
  else match target with
       | TStr s => Some (TStr (replace_all s token (value_to_string render source)))
       | _ => None
       end.

(* one iteration of the substitution loop *)
Definition mutate_sub (render : tv -> string) (e : env) (self : ref) (sub : subst) (t : tv)
  : merr + tv :=
  match e_scope e (s_src sub) with
  | None => inl MEMapping
  | Some _ =>
      let sourceRef := eff_ref e self (s_src sub) in
      (* re-check to catch sources with implicit namespace *)
      if ref_eqb self sourceRef then inl MESelfRef
      else match get_object e sourceRef with
           | None => inl MEGetSource
           | Some src =>
               match read_field (s_tpath sub) t with
               | None => inl METargetRead
               | Some tval =>
                   match read_field (s_spath sub) src with
                   | None => inl MESourceRead
                   | Some sval =>
                       match new_value render (s_token sub) tval sval with
                       | None => inl METokenType
                       | Some nv =>
                           match write_field (s_tpath sub) nv t with
                           | None => inl MEWrite
                           | Some t' => inr t'
                           end
                       end
                   end
               end
           end
  end.

Record mres := mkRes { m_err : option merr; m_tree : tv; m_mutated : bool }.

Fixpoint mutate_loop (render : tv -> string) (e : env) (self : ref) (subs : list subst)
         (t : tv) (mutated : bool) : mres :=
  match subs with
  | [] => mkRes None t mutated
  | sub :: rest =>
      match mutate_sub render e self sub t with
      | inl err => mkRes (Some err) t mutated
      | inr t' => mutate_loop render e self rest t' true
      end
  end.

Definition mutate (render : tv -> string) (e : env) (self : ref) (a : annot) (t : tv) : mres :=
  match a with
  | ANone => mkRes None t false
  | ABad => mkRes (Some MEAnnotation) t false
  | ASubs subs =>
      if existsb (fun sub => ref_eqb self (s_src sub)) subs
      then mkRes (Some MESelfRef) t false
      else mutate_loop render e self subs t false
  end.

(* ApplyTask.Start for one object: a mutation error sends an apply-failed
   event, records the failed apply and `continue`s — the object is not sent *)
Inductive apply_outcome := Applied (t : tv) | ApplyFailed (err : merr).

Definition apply_object (render : tv -> string) (e : env) (self : ref) (a : annot) (t : tv)
  : apply_outcome :=
  let r := mutate render e self a t in
  match m_err r with
  | Some err => ApplyFailed err
  | None => Applied (m_tree r)
  end.

(* the property's notion of a self-reference: the object the source
   reference resolves to is the target itself *)
Definition self_ref (e : env) (self : ref) (sub : subst) : bool :=
  ref_eqb self (eff_ref e self (s_src sub)).
