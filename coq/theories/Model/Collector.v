(* Model of collector.ResourceStatusCollector (pkg/kstatus/polling/collector). *)
From Coq Require Import List Bool Arith ZArith String.
From CliUtils Require Import Model.Engine.
Import ListNotations.

(* event.Event as the collector sees it (Type + payload) *)
Inductive cevent := CUpdate (r : rstatus) | CError (e : err) | CSync.
Inductive etype := TUpdate | TError | TSync.
Definition cevent_type (e : cevent) : etype :=
  match e with CUpdate _ => TUpdate | CError _ => TError | CSync => TSync end.

(* ResourceStatuses map: one entry per key, insertion position kept on
   overwrite (the order is irrelevant: LatestObservation sorts) *)
Fixpoint cm_set (m : list (nat * rstatus)) (i : nat) (r : rstatus) : list (nat * rstatus) :=
  match m with
  | [] => [(i, r)]
  | (k, x) :: t => if Nat.eqb k i then (k, r) :: t else (k, x) :: cm_set t i r
  end.
Fixpoint cm_get (m : list (nat * rstatus)) (i : nat) : option rstatus :=
  match m with
  | [] => None
  | (k, x) :: t => if Nat.eqb k i then Some x else cm_get t i
  end.

Record cstate := mkC { c_last : etype; c_map : list (nat * rstatus); c_err : option err;
                       c_results : list err (* ListenerResult values sent *) }.

Definition unknown_rs (i : nat) : rstatus := RS i Unknown EmptyString None None [].

(* NewResourceStatusCollector: LastEventType is the zero value (Update) *)
Definition c_init (ids : list nat) : cstate :=
  mkC TUpdate (fold_left (fun m i => cm_set m i (unknown_rs i)) ids []) None [].

(* processEvent (+ the ListenerResult sent by the listening goroutine) *)
Definition c_process (c : cstate) (e : cevent) : cstate :=
  match e with
  | CError x => mkC TError (c_map c) (Some x) (c_results c ++ [x])
  | CUpdate r => mkC TUpdate (cm_set (c_map c) (rs_id r) r) (c_err c) (c_results c)
  | CSync => mkC TSync (c_map c) (c_err c) (c_results c)
  end.

Definition c_run (ids : list nat) (es : list cevent) : cstate := fold_left c_process es (c_init ids).

(* LatestObservation: entries sorted by identifier.  The harness universe is
   numbered in the order of ResourceStatuses.Less, so sorting by number is
   the same order. *)
Fixpoint ins_entry (x : nat * rstatus) (l : list (nat * rstatus)) : list (nat * rstatus) :=
  match l with
  | [] => [x]
  | h :: t => if Nat.leb (fst x) (fst h) then x :: l else h :: ins_entry x t
  end.
Definition sort_entries (l : list (nat * rstatus)) : list (nat * rstatus) := fold_right ins_entry [] l.

Record observation := mkObs { o_last : etype; o_statuses : list rstatus; o_err : option err }.
Definition latest_observation (c : cstate) : observation :=
  mkObs (c_last c) (map snd (sort_entries (c_map c))) (c_err c).

(* ---- vocabulary for the property statement ----------------------------- *)
Definition last_update (es : list cevent) (j : nat) : option rstatus :=
  fold_left (fun acc e => match e with
                          | CUpdate r => if Nat.eqb (rs_id r) j then Some r else acc
                          | _ => acc end) es None.
Definition last_error (es : list cevent) : option err :=
  fold_left (fun acc e => match e with CError x => Some x | _ => acc end) es None.
