(* Executable model of one Applier.Run / Destroyer.Run over an abstract API
   server: validation, plan (solver.Build), task execution (inventory-add,
   apply, wait, prune, inventory-set), runner abort handling, events.
   Transcribed from pkg/apply/{applier,destroyer}.go, solver/solver.go,
   task/*.go, prune/prune.go, filter/*.go, taskrunner/{runner,task,condition}.go,
   inventory/{inventory-client,policy}.go.  No proofs in this file. *)
From Coq Require Import List Bool Arith NArith ZArith.
From CliUtils Require Import Model.ObjSet Model.ActuationTable Model.PipelineTypes.
Import ListNotations.

(* ---- small helpers ------------------------------------------------------ *)
Definition memn (x : id) (l : list id) : bool := existsb (Nat.eqb x) l.
Fixpoint insn (x : nat) (l : list nat) : list nat :=
  match l with
  | [] => [x]
  | h :: t => if Nat.leb x h then x :: l else h :: insn x t
  end.
Definition sortn (l : list nat) : list nat := fold_right insn [] l.
Definition dedupn := dedup Nat.eqb.
Definition unionn := union Nat.eqb.
Definition intern := intersection Nat.eqb.
Definition diffn := diff Nat.eqb.
Fixpoint count_n (x : nat) (l : list nat) : nat :=
  match l with [] => 0 | h :: t => (if Nat.eqb h x then 1 else 0) + count_n x t end.

Definition owner_eqb (a b : owner) : bool :=
  match a, b with ONone, ONone | OOurs, OOurs | OOther, OOther => true | _, _ => false end.
Definition kst_eqb (a b : kst) : bool :=
  match a, b with
  | SInProgress, SInProgress | SFailed, SFailed | SCurrent, SCurrent
  | STerminating, STerminating | SNotFound, SNotFound | SUnknown, SUnknown => true
  | _, _ => false end.
Definition faddr_eqb (a b : faddr) : bool :=
  match a, b with
  | FInvList n, FInvList m | FInvGet n, FInvGet m | FInvWrite n, FInvWrite m => Nat.eqb n m
  | FInvDelete, FInvDelete | FNsCreate, FNsCreate => true
  | FGet i n, FGet j m => Nat.eqb i j && Nat.eqb n m
  | FApply i, FApply j | FUpdate i, FUpdate j | FDelete i, FDelete j => Nat.eqb i j
  | FStream i n, FStream j m => Nat.eqb i j && Nat.eqb n m
  | _, _ => false
  end.
Definition is_dry (d : dry) : bool := match d with DNone => false | _ => true end.

Definition uinfo_of (sc : scenario) (i : id) : uinfo := nth i (sc_univ sc) (mkU KPlain None None).

(* ---- cluster access ----------------------------------------------------- *)
Fixpoint find_obj (l : list cobj) (i : id) : option cobj :=
  match l with
  | [] => None
  | c :: t => if Nat.eqb (c_id c) i then Some c else find_obj t i
  end.
Fixpoint put_obj (l : list cobj) (n : cobj) : list cobj :=
  match l with
  | [] => [n]
  | c :: t => if Nat.eqb (c_id c) (c_id n) then n :: t else c :: put_obj t n
  end.
Definition del_obj (l : list cobj) (i : id) : list cobj :=
  filter (fun c => negb (Nat.eqb (c_id c) i)) l.

Definition managed (cl : cluster) : list id :=
  sortn (map c_id (filter (fun c => owner_eqb (c_owner c) OOurs) (objs cl))).
Definition stored (cl : cluster) : option (list id) := option_map sortn (inv cl).

(* canonical form of a cluster: objects sorted by id, inventory keys sorted *)
Definition norm_cluster (cl : cluster) : cluster :=
  mkCl (flat_map (fun i => match find_obj (objs cl) i with Some c => [c] | None => [] end)
                 (dedupn (sortn (map c_id (objs cl)))))
       (stored cl) (next_uid cl).

(* ---- run state ---------------------------------------------------------- *)
Record rst := mkR {
  r_cl : cluster;
  r_tbl : table id;
  r_cache : list sobs;        (* newest first *)
  r_aband : list id;
  r_nlist : nat;              (* inventory LISTs issued *)
  r_nget : nat;               (* inventory GETs by name issued *)
  r_nwrite : nat;             (* inventory creates/updates issued *)
  r_gets : list id;           (* one entry per object GET issued *)
  r_tr : list item;           (* reversed *)
  r_abort : bool;             (* caller's context cancelled / watcher failed *)
  r_known : list id;          (* CRD ids whose custom kind the RESTMapper knows (as of its last reset) *)
}.

Definition set_cl (s : rst) (c : cluster) : rst :=
  mkR c (r_tbl s) (r_cache s) (r_aband s) (r_nlist s) (r_nget s) (r_nwrite s) (r_gets s) (r_tr s) (r_abort s) (r_known s).
Definition set_tbl (s : rst) (t : table id) : rst :=
  mkR (r_cl s) t (r_cache s) (r_aband s) (r_nlist s) (r_nget s) (r_nwrite s) (r_gets s) (r_tr s) (r_abort s) (r_known s).
Definition set_cache (s : rst) (c : list sobs) : rst :=
  mkR (r_cl s) (r_tbl s) c (r_aband s) (r_nlist s) (r_nget s) (r_nwrite s) (r_gets s) (r_tr s) (r_abort s) (r_known s).
Definition add_aband (s : rst) (i : id) : rst :=
  mkR (r_cl s) (r_tbl s) (r_cache s) (i :: r_aband s) (r_nlist s) (r_nget s) (r_nwrite s) (r_gets s) (r_tr s) (r_abort s) (r_known s).
Definition emit (s : rst) (it : item) : rst :=
  mkR (r_cl s) (r_tbl s) (r_cache s) (r_aband s) (r_nlist s) (r_nget s) (r_nwrite s) (r_gets s) (it :: r_tr s) (r_abort s) (r_known s).
Definition ev (s : rst) (e : evt) : rst := emit s (IEv e).
Definition set_abort (s : rst) : rst :=
  mkR (r_cl s) (r_tbl s) (r_cache s) (r_aband s) (r_nlist s) (r_nget s) (r_nwrite s) (r_gets s) (r_tr s) true (r_known s).

Definition set_known (s : rst) (k : list id) : rst :=
  mkR (r_cl s) (r_tbl s) (r_cache s) (r_aband s) (r_nlist s) (r_nget s) (r_nwrite s) (r_gets s) (r_tr s) (r_abort s) k.

Definition rec_add (s : rst) (i : id) (st : strategy) (a : actuation) (u : N) (g : Z) : rst :=
  set_tbl s (set_status Nat.eqb (r_tbl s) (mkRec i st a RPending u g)).
Definition rec_reconcile (s : rst) (i : id) (r : reconcile) : rst :=
  match set_reconcile Nat.eqb (r_tbl s) i r with
  | Some t => set_tbl s t
  | None => s
  end.

Section Run.
  Variable sc : scenario.
  Let o := sc_opts sc.
  Let dryrun := is_dry (o_dry o).

  Definition faulted (a : faddr) : bool := existsb (faddr_eqb a) (e_faults (sc_env sc)).

  (* ---- what the RESTMapper knows -------------------------------------------
     A custom kind is known iff its CRD object was in the cluster at the mapper's last reset
     (discovery): at the start of the run, and at the end of every wait task whose ids contain
     a CRD that is not skipped (WaitTask.updateRESTMapper). *)
  Definition is_crd_id (i : id) : bool :=
    match u_kind (uinfo_of sc i) with KCrd => true | _ => false end.
  Definition live_crds (cl : cluster) : list id := filter is_crd_id (map c_id (objs cl)).
  Definition kind_known (known : list id) (i : id) : bool :=
    match u_crd (uinfo_of sc i) with Some c => memn c known | None => true end.

  (* a mutating request reached the server: log it with the snapshot after it *)
  Definition log_req (s : rst) (r : req) (ok : bool) : rst :=
    emit s (IReq r ok (managed (r_cl s)) (stored (r_cl s))).

  (* cancellation while the request for i is served *)
  Definition maybe_cancel (s : rst) (i : id) : rst :=
    match e_cancel (sc_env sc) with
    | CDuringReq j => if Nat.eqb i j then set_abort s else s
    | _ => s
    end.

  (* ---- reads ------------------------------------------------------------ *)
  (* LIST of the inventory by label: None = rejected *)
  Definition inv_list (s : rst) : rst * option (option (list id)) :=
    let n := r_nlist s in
    let s' := mkR (r_cl s) (r_tbl s) (r_cache s) (r_aband s) (S n) (r_nget s) (r_nwrite s) (r_gets s) (r_tr s) (r_abort s) (r_known s) in
    if faulted (FInvList n) then (s', None) else (s', Some (inv (r_cl s))).

  Inductive getres := GFault | GNotFound | GFound (c : cobj).
  Definition get_obj (s : rst) (i : id) : rst * getres :=
    let n := count_n i (r_gets s) in
    let s' := mkR (r_cl s) (r_tbl s) (r_cache s) (r_aband s) (r_nlist s) (r_nget s) (r_nwrite s) (i :: r_gets s) (r_tr s) (r_abort s) (r_known s) in
    if faulted (FGet i n) then (s', GFault)
    else match find_obj (objs (r_cl s)) i with
         | Some c => (s', GFound c)
         | None => (s', GNotFound)
         end.

  (* ---- inventory writes -------------------------------------------------- *)
  (* ConfigMap.Apply: GET by name, then Create or Update.  Returns ok. *)
  Definition inv_apply (s : rst) (ids : list id) : rst * bool :=
    let g := r_nget s in
    let s1 := mkR (r_cl s) (r_tbl s) (r_cache s) (r_aband s) (r_nlist s) (S g) (r_nwrite s) (r_gets s) (r_tr s) (r_abort s) (r_known s) in
    if faulted (FInvGet g) then (s1, false) else
    let w := r_nwrite s1 in
    let s2 := mkR (r_cl s1) (r_tbl s1) (r_cache s1) (r_aband s1) (r_nlist s1) (r_nget s1) (S w) (r_gets s1) (r_tr s1) (r_abort s1) (r_known s1) in
    let rq := match inv (r_cl s) with None => RInvCreate (sortn ids) | Some _ => RInvUpdate (sortn ids) end in
    if faulted (FInvWrite w) then (log_req s2 rq false, false)
    else
      let cl := r_cl s2 in
      let s3 := set_cl s2 (mkCl (objs cl) (Some (sortn ids)) (next_uid cl)) in
      (log_req s3 rq true, true).

  (* ConfigMap.ApplyWithPrune: Update directly *)
  Definition inv_update (s : rst) (ids : list id) : rst * bool :=
    let w := r_nwrite s in
    let s2 := mkR (r_cl s) (r_tbl s) (r_cache s) (r_aband s) (r_nlist s) (r_nget s) (S w) (r_gets s) (r_tr s) (r_abort s) (r_known s) in
    if faulted (FInvWrite w) then (log_req s2 (RInvUpdate (sortn ids)) false, false)
    else
      let cl := r_cl s2 in
      match inv cl with
      | None => (log_req s2 (RInvUpdate (sortn ids)) false, false)   (* update of a missing object: NotFound *)
      | Some _ =>
          let s3 := set_cl s2 (mkCl (objs cl) (Some (sortn ids)) (next_uid cl)) in
          (log_req s3 (RInvUpdate (sortn ids)) true, true)
      end.

  Definition set_eqn (a b : list id) : bool := equal Nat.eqb a b.

  (* ClusterClient.Merge; returns ok *)
  Definition merge (s : rst) (ids : list id) : rst * bool :=
    let '(s1, r1) := inv_list s in
    match r1 with
    | None => (s1, false)
    | Some None =>
        if dryrun then (s1, true) else inv_apply s1 ids
    | Some (Some _) =>
        let '(s2, r2) := inv_list s1 in
        match r2 with
        | None => (s2, false)
        | Some cur0 =>
            let cur := match cur0 with Some l => l | None => [] end in
            let un := unionn cur ids in
            if set_eqn ids cur && negb (o_status_policy_all o) then (s2, true)
            else if dryrun then (s2, true)
            else inv_apply s2 un
        end
    end.

  (* ClusterClient.Replace; returns ok *)
  Definition replace (s : rst) (ids : list id) : rst * bool :=
    if dryrun then (s, true) else
    let '(s1, r1) := inv_list s in
    match r1 with
    | None => (s1, false)
    | Some _ =>
        let '(s2, r2) := inv_list s1 in
        match r2 with
        | None => (s2, false)
        | Some cur0 =>
            match cur0 with
            | None => (s2, false)           (* no inventory object to replace: error *)
            | Some cur =>
                if set_eqn ids cur && negb (o_status_policy_all o) then (s2, true)
                else inv_update s2 ids
            end
        end
    end.

  (* ---- validation and plan ----------------------------------------------- *)
  (* one planned object: from the manifest (apply) or from the cluster (prune) *)
  Record pobj := mkP {
    p_id : id;
    p_deps : list id;
    p_baddep : bool;
    p_local : option lobj;      (* Some = apply object *)
    p_live : option cobj;       (* Some = prune object as read at plan time *)
  }.
  Definition pobj_of_local (l : lobj) : pobj := mkP (l_id l) (l_deps l) (l_baddep l) (Some l) None.
  Definition pobj_of_live (c : cobj) : pobj := mkP (c_id c) (c_deps c) (c_baddep c) None (Some c).

  (* explicit depends-on edges of one object and whether the annotation is in error
     (malformed, duplicate or external reference) *)
  Fixpoint dep_edges (ids seen : list id) (deps : list id) : list id * bool :=
    match deps with
    | [] => ([], false)
    | d :: t =>
        if memn d seen then let '(e, _) := dep_edges ids seen t in (e, true)
        else if negb (memn d ids) then let '(e, _) := dep_edges ids (d :: seen) t in (e, true)
        else let '(e, b) := dep_edges ids (d :: seen) t in (d :: e, b)
    end.

  (* Graph.Dependencies in insertion order: CRD edge, namespace edge, depends-on edges; no duplicates *)
  Definition edges_of (ids : list id) (p : pobj) : list id * bool :=
    let u := uinfo_of sc (p_id p) in
    let e_crd := match u_crd u with Some c => if memn c ids then [c] else [] | None => [] end in
    let e_ns := match u_nsobj u with Some n => if memn n ids then [n] else [] | None => [] end in
    if p_baddep p then (dedupn (e_crd ++ e_ns), true)
    else let '(e, bad) := dep_edges ids [] (p_deps p) in (dedupn (e_crd ++ e_ns ++ e), bad).

  Definition graph := list (id * list id).     (* vertex, dependencies; in allObjs order *)
  Fixpoint g_deps (g : graph) (i : id) : list id :=
    match g with
    | [] => []
    | (v, d) :: t => if Nat.eqb v i then d else g_deps t i
    end.
  Definition g_dependents (g : graph) (i : id) : list id :=
    map fst (filter (fun vd => memn i (snd vd)) g).

  (* Graph.Sort: repeated removal of the vertices without remaining dependencies *)
  Fixpoint kahn (fuel : nat) (g : graph) (rem : list id) : list (list id) * list id :=
    match fuel with
    | 0 => ([], rem)
    | S f =>
        match rem with
        | [] => ([], [])
        | _ =>
            let leaves := filter (fun v => forallb (fun d => negb (memn d rem)) (g_deps g v)) rem in
            match leaves with
            | [] => ([], rem)
            | _ =>
                let '(ls, cyc) := kahn f g (filter (fun v => negb (memn v leaves)) rem) in
                (leaves :: ls, cyc)
            end
        end
    end.

  Record plan := mkPlan {
    pl_valerrs : list (list id);       (* one entry per validation error, ids it names *)
    pl_invalid : list id;
    pl_apply : list pobj;              (* valid apply objects, manifest order *)
    pl_prune : list pobj;              (* valid prune objects *)
    pl_prune_all : list pobj;          (* every fetched prune candidate (for the NoPrune registration) *)
    pl_graph : graph;
    pl_apply_layers : list (list pobj);
    pl_prune_layers : list (list pobj);
  }.

  Definition pick (objs : list pobj) (l : list id) : list pobj :=
    (* HydrateSetList: objects of the layer, sorted in apply order (= id order) *)
    let ids := sortn (filter (fun i => memn i (map p_id objs)) l) in
    flat_map (fun i => filter (fun p => Nat.eqb (p_id p) i) objs) ids.

  Definition hydrate (layers : list (list id)) (objs : list pobj) : list (list pobj) :=
    filter (fun l => match l with [] => false | _ => true end) (map (pick objs) layers).

  (* validation: the type of a manifest is unknown when its CRD is neither known to the mapper
     nor part of the manifests (LookupResourceScope falls back to the CRDs of the set) *)
  Definition unknown_type (known : list id) (locals : list lobj) (l : lobj) : bool :=
    match u_crd (uinfo_of sc (l_id l)) with
    | Some c => negb (memn c known) && negb (memn c (map l_id locals))
    | None => false
    end.

  Definition build_plan (known : list id) (locals : list lobj) (prune_objs : list cobj) : plan :=
    let finv := map l_id (filter (fun l => l_finv l || unknown_type known locals l) locals) in
    let errs1 := map (fun i => [i]) finv in
    let applyA := map pobj_of_local (filter (fun l => negb (memn (l_id l) finv)) locals) in
    let pruneA := map pobj_of_live prune_objs in
    let all := applyA ++ pruneA in
    let ids := map p_id all in
    let ged := map (fun p => (p_id p, edges_of ids p)) all in
    let g : graph := map (fun x => (fst x, fst (snd x))) ged in
    let bad := map fst (filter (fun x => snd (snd x)) ged) in
    let errs2 := map (fun i => [i]) bad in
    let '(layers, cyc) := kahn (length ids) g ids in
    let errs3 := match cyc with [] => [] | _ => [sortn cyc] end in
    let invalid := dedupn (finv ++ bad ++ cyc) in
    let applyV := filter (fun p => negb (memn (p_id p) invalid)) applyA in
    let pruneV := filter (fun p => negb (memn (p_id p) invalid)) pruneA in
    mkPlan (errs1 ++ errs2 ++ errs3) invalid applyV pruneV pruneA g
           (hydrate layers applyV)
           (rev (map (fun l => rev l) (hydrate layers pruneV))).

  (* ---- filters ------------------------------------------------------------ *)
  Inductive fres := FPass | FSkip | FFatal.

  Definition can_apply (ow : owner) : bool :=
    match ow with
    | ONone => match o_policy o with PMustMatch => false | _ => true end
    | OOurs => true
    | OOther => match o_policy o with PAdoptAll => true | _ => false end
    end.
  Definition can_prune (ow : owner) : bool :=
    match ow with
    | ONone => match o_policy o with PMustMatch => false | _ => true end
    | OOurs => true
    | OOther => match o_policy o with PAdoptAll => true | _ => false end
    end.

  (* DependencyFilter.filterByRelationship for one related object *)
  Definition dep_check (pl : plan) (tbl : table id) (strat : strategy) (b : id) : fres :=
    if memn b (pl_invalid pl) then FFatal else
    match lookup Nat.eqb tbl b with
    | None => FFatal
    | Some r =>
        if negb (strategy_eqb (r_str r) strat) then FSkip else
        match r_act r with
        | APending => FFatal
        | ASkipped | AFailed => FSkip
        | ASucceeded =>
            if dryrun then FPass else
            match r_rec r with
            | RPending => FFatal
            | RSkipped | RFailed | RTimeout => FSkip
            | RSucceeded => FPass
            end
        end
    end.
  Fixpoint dep_filter (pl : plan) (tbl : table id) (strat : strategy) (rel : list id) : fres :=
    match rel with
    | [] => FPass
    | b :: t => match dep_check pl tbl strat b with
                | FPass => dep_filter pl tbl strat t
                | r => r
                end
    end.

  (* ---- apply task --------------------------------------------------------- *)
  Definition harness_gen : Z := 2%Z.     (* every object of the harness carries generation 2 *)

  Fixpoint ids_eqb (a b : list id) : bool :=
    match a, b with
    | [], [] => true
    | x :: a', y :: b' => Nat.eqb x y && ids_eqb a' b'
    | _, _ => false
    end.

  Definition cfg_of_manifest (l : lobj) : lastcfg :=
    mkLA OOurs (l_keep l) (l_deps l) (l_baddep l) (l_ver l).
  Definition lastcfg_eqb (a b : lastcfg) : bool :=
    owner_eqb (la_owner a) (la_owner b) && Bool.eqb (la_keep a) (la_keep b) &&
    ids_eqb (la_deps a) (la_deps b) && Bool.eqb (la_baddep a) (la_baddep b) &&
    Nat.eqb (la_ver a) (la_ver b).
  Definition has_deps_annot (deps : list id) (bad : bool) : bool :=
    bad || match deps with [] => false | _ => true end.

  (* kubectl's three-way merge on the modelled attributes: what the manifest
     sets wins; what only the last-applied configuration had is removed; what
     is only on the live object survives *)
  Definition merged (c : cobj) (l : lobj) : cobj :=
    let last_keep := match c_last c with Some la => la_keep la | None => false end in
    let last_deps := match c_last c with Some la => has_deps_annot (la_deps la) (la_baddep la) | None => false end in
    let keep' := l_keep l || (c_keep c && negb last_keep) in
    let '(deps', bad') :=
      if has_deps_annot (l_deps l) (l_baddep l) then (l_deps l, l_baddep l)
      else if last_deps then ([], false)
      else (c_deps c, c_baddep c) in
    mkC (c_id c) (c_uid c) OOurs keep' deps' bad' (l_ver l) (Some (cfg_of_manifest l)).

  Definition live_eqb (a b : cobj) : bool :=
    owner_eqb (c_owner a) (c_owner b) && Bool.eqb (c_keep a) (c_keep b) &&
    ids_eqb (c_deps a) (c_deps b) && Bool.eqb (c_baddep a) (c_baddep b) && Nat.eqb (c_ver a) (c_ver b).

  (* the patch is empty iff the merge changes nothing and the annotation
     already describes the manifest *)
  Definition patch_needed (c : cobj) (l : lobj) : bool :=
    negb (live_eqb (merged c l) c
          && match c_last c with Some la => lastcfg_eqb la (cfg_of_manifest l) | None => false end).

  Definition obj_of_manifest (l : lobj) (uid : N) (last : option lastcfg) : cobj :=
    mkC (l_id l) uid OOurs (l_keep l) (l_deps l) (l_baddep l) (l_ver l) last.

  (* server-side apply is used with server dry-run, or when requested and not
     in client dry-run *)
  Definition ssa_mode : bool :=
    match o_dry o with
    | DServer => true
    | DClient => false
    | DNone => o_ssa o
    end.

  (* apiregistration.k8s.io APIService: the one kind with a client-side fallback (apply_task.go isAPIService) *)
  Definition is_apisvc (i : id) : bool :=
    match u_kind (uinfo_of sc i) with KApiSvc => true | _ => false end.

  (* outcome of one server-side-apply PATCH *)
  Inductive ssares := SsaOk (u : N) | SsaFail | SsaStream.

  (* kubectl's server-side branch: one apply PATCH carrying the manifest.  n = number of
     server-side-apply PATCHes for this object sent before in this run (0, or 1 in the fallback
     under server dry-run); the n-th one can be answered with a stream error *)
  Definition ssa_patch (s : rst) (l : lobj) (n : nat) : rst * ssares :=
    let i := l_id l in
    let dflag := match o_dry o with DServer => true | _ => false end in
    let s0 := maybe_cancel s i in
    if faulted (FStream i n) then (log_req s0 (RPatch i true dflag) false, SsaStream)
    else if faulted (FApply i) then (log_req s0 (RPatch i true dflag) false, SsaFail)
    else
      let cl := r_cl s0 in
      match find_obj (objs cl) i with
      | Some c =>
          if dflag then (log_req s0 (RPatch i true true) true, SsaOk (c_uid c))
          else
            let s1 := set_cl s0 (mkCl (put_obj (objs cl) (obj_of_manifest l (c_uid c) None)) (inv cl) (next_uid cl)) in
            (log_req s1 (RPatch i true false) true, SsaOk (c_uid c))
      | None =>
          if dflag then (log_req s0 (RPatch i true true) true, SsaOk 0%N)
          else
            let u := next_uid cl in
            let s1 := set_cl s0 (mkCl (put_obj (objs cl) (obj_of_manifest l u None)) (inv cl) (N.succ u)) in
            (log_req s1 (RPatch i true false) true, SsaOk u)
      end.

  (* kubectl's client-side branch: GET, then POST if NotFound else PATCH if the three-way merge
     changes something; under dry-run nothing is sent after the GET *)
  Definition csa_apply (s : rst) (l : lobj) : rst * option N :=
    let i := l_id l in
    let '(s1, g) := get_obj s i in
    match g with
    | GFault => (s1, None)
    | GNotFound =>
        if dryrun then (s1, Some 0%N) else
        let s2 := maybe_cancel s1 i in
        if faulted (FApply i) then (log_req s2 (RCreate i false) false, None)
        else
          let cl := r_cl s2 in
          let u := next_uid cl in
          let s3 := set_cl s2 (mkCl (put_obj (objs cl) (obj_of_manifest l u (Some (cfg_of_manifest l)))) (inv cl) (N.succ u)) in
          (log_req s3 (RCreate i false) true, Some u)
    | GFound c =>
        if negb (patch_needed c l) then (s1, Some (c_uid c))
        else if dryrun then (s1, Some (c_uid c))
        else
          let s2 := maybe_cancel s1 i in
          if faulted (FApply i) then (log_req s2 (RPatch i false false) false, None)
          else
            let cl := r_cl s2 in
            let s3 := set_cl s2 (mkCl (put_obj (objs cl) (merged c l)) (inv cl) (next_uid cl)) in
            (log_req s3 (RPatch i false false) true, Some (c_uid c))
    end.

  Definition ssa_result (r : ssares) : option N :=
    match r with SsaOk u => Some u | _ => None end.

  (* ApplyTask.clientSideApply: a second ApplyOptions.Run with ServerSideApply off and the task's
     dry-run strategy.  newApplyOptions still applies server-side under server dry-run, so there the
     second attempt is another (dry-run) apply PATCH, the object's second one in this run. *)
  Definition apisvc_fallback (s : rst) (l : lobj) : rst * option N :=
    match o_dry o with
    | DServer => let '(s1, r) := ssa_patch s l 1 in (s1, ssa_result r)
    | _ => csa_apply s l
    end.

  (* kubectl apply of one manifest as ApplyTask runs it; returns (state, Some uid on success).
     The outcome of the fallback, when it is taken, is the outcome of the apply. *)
  Definition kubectl_apply (s : rst) (l : lobj) : rst * option N :=
    if ssa_mode then
      let '(s1, r) := ssa_patch s l 0 in
      match r with
      | SsaStream =>
          if o_ssa o && is_apisvc (l_id l) then apisvc_fallback s1 l else (s1, None)
      | _ => (s1, ssa_result r)
      end
    else csa_apply s l.

  (* InventoryPolicyApplyFilter *)
  Definition policy_apply_filter (s : rst) (i : id) : rst * fres :=
    match o_policy o with
    | PAdoptAll => (s, FPass)
    | _ =>
        let '(s1, g) := get_obj s i in
        match g with
        | GFault => (s1, FFatal)
        | GNotFound => (s1, FPass)
        | GFound c => (s1, if can_apply (c_owner c) then FPass else FSkip)
        end
    end.

  (* ---- apply-time mutation: the source lookup ------------------------------------
     ApplyTimeMutator.Mutate, for each substitution in annotation order: REST mapping of the
     source (getMapping), then getObject: the run's resource cache is used only when the entry
     has a body AND says Current; otherwise a GET through the dynamic client (the next GET of
     that object: same counter and fault address as every other GET of it).  A rejected GET fails
     the mutation and leaves the cache alone; NotFound is Put into the cache (no body) and fails
     the mutation; a found object is Put with the status kstatus computes for it (u_gcur) and
     the loop goes on.  The substitution itself is not modelled.  Returns ok. *)
  Fixpoint cache_get (c : list sobs) (i : id) : sobs :=
    match c with
    | [] => mkS i SUnknown false 0%N 0%Z
    | x :: t => if Nat.eqb (s_id x) i then x else cache_get t i
    end.

  Definition mut_source (s : rst) (j : id) : rst * bool :=
    if negb (kind_known (r_known s) j) then (s, false) else
    let ob := cache_get (r_cache s) j in
    if s_body ob && kst_eqb (s_st ob) SCurrent then (s, true) else
    let '(s1, g) := get_obj s j in
    match g with
    | GFault => (s1, false)
    | GNotFound => (set_cache s1 (mkS j SNotFound false 0%N 0%Z :: r_cache s1), false)
    | GFound c =>
        (set_cache s1 (mkS j (if u_gcur (uinfo_of sc j) then SCurrent else SInProgress) true (c_uid c) harness_gen
                       :: r_cache s1), true)
    end.

  Fixpoint mut_sources (s : rst) (js : list id) : rst * bool :=
    match js with
    | [] => (s, true)
    | j :: t => let '(s1, ok) := mut_source s j in if ok then mut_sources s1 t else (s1, false)
    end.

  (* ApplyTask.mutate: only a manifest that carries the mutation annotation has sources *)
  Definition mutate (s : rst) (l : lobj) : rst * bool :=
    if l_mut l then mut_sources s (l_deps l) else (s, true).

  Definition apply_one (pl : plan) (g : gname) (s : rst) (p : pobj) : rst :=
    match p_local p with
    | None => s
    | Some l =>
        let i := p_id p in
        (* InfoHelper.BuildInfo runs before the filters: no REST mapping => ApplyFailed, nothing sent *)
        if negb (kind_known (r_known s) i) then rec_add (ev s (EApply g i AFail)) i SApply AFailed 0%N 0%Z else
        let '(s1, f1) := policy_apply_filter s i in
        let f := match f1 with
                 | FPass => dep_filter pl (r_tbl s1) SApply (g_deps (pl_graph pl) i)
                 | r => r
                 end in
        match f with
        | FFatal => rec_add (ev s1 (EApply g i AFail)) i SApply AFailed 0%N 0%Z
        | FSkip => rec_add (ev s1 (EApply g i ASkip)) i SApply ASkipped 0%N 0%Z
        | FPass =>
            (* a.mutate between the filters and kubectl apply: on error ApplyFailed + AddFailedApply, no request *)
            let '(sm, okm) := mutate s1 l in
            if negb okm then rec_add (ev sm (EApply g i AFail)) i SApply AFailed 0%N 0%Z else
            let '(s2, r) := kubectl_apply sm l in
            match r with
            | Some u => rec_add (ev s2 (EApply g i AOk)) i SApply ASucceeded u harness_gen
            | None => rec_add (ev s2 (EApply g i AFail)) i SApply AFailed 0%N 0%Z
            end
        end
    end.

  Definition apply_task (pl : plan) (g : gname) (s : rst) (layer : list pobj) : rst :=
    fold_left (apply_one pl g) layer s.

  (* ---- prune task --------------------------------------------------------- *)
  Definition ns_in_use (locals : list lobj) (n : id) : bool :=
    existsb (fun l => match u_nsobj (uinfo_of sc (l_id l)) with Some m => Nat.eqb m n | None => false end) locals
    || match sc_inv_ns sc with Some m => Nat.eqb m n | None => false end.

  Inductive pres := PDelete | PSkipKeep | PSkipAlias | PSkipOther | PFatal.

  (* the ordered filter chain of Pruner.Prune *)
  Definition prune_filters (pl : plan) (locals : list lobj) (tbl : table id) (uids : list N) (c : cobj) : pres :=
    if c_keep c then PSkipKeep
    else if negb (can_prune (c_owner c)) then PSkipOther
    else if negb (o_destroy o) && match u_kind (uinfo_of sc (c_id c)) with KNs => ns_in_use locals (c_id c) | _ => false end
         then PSkipOther
    else match dep_filter pl tbl SDelete (g_dependents (pl_graph pl) (c_id c)) with
         | FFatal => PFatal
         | FSkip => PSkipOther
         | FPass => if existsb (N.eqb (c_uid c)) uids then PSkipAlias else PDelete
         end.

  Definition prune_one (pl : plan) (locals : list lobj) (g : gname) (uids : list N) (s : rst) (p : pobj) : rst :=
    match p_live p with
    | None => s
    | Some c =>
        let i := c_id c in
        match prune_filters pl locals (r_tbl s) uids c with
        | PFatal => rec_add (ev s (EPrune g i AFail)) i SDelete AFailed 0%N 0%Z
        | PSkipOther => rec_add (ev s (EPrune g i ASkip)) i SDelete ASkipped 0%N 0%Z
        | PSkipAlias =>
            let s1 := if dryrun then s else add_aband s i in
            rec_add (ev s1 (EPrune g i ASkip)) i SDelete ASkipped 0%N 0%Z
        | PSkipKeep =>
            if dryrun then rec_add (ev s (EPrune g i ASkip)) i SDelete ASkipped 0%N 0%Z
            else
              match c_owner c with
              | ONone => rec_add (ev (add_aband s i) (EPrune g i ASkip)) i SDelete ASkipped 0%N 0%Z
              | _ =>
                  (* removeInventoryAnnotation: Update of the object read at plan time *)
                  if faulted (FUpdate i) then
                    rec_add (ev (log_req s (RUpdate i) false) (EPrune g i AFail)) i SDelete AFailed 0%N 0%Z
                  else
                    let cl := r_cl s in
                    match find_obj (objs cl) i with
                    | None =>
                        rec_add (ev (log_req s (RUpdate i) false) (EPrune g i AFail)) i SDelete AFailed 0%N 0%Z
                    | Some _ =>
                        let c' := mkC i (c_uid c) ONone (c_keep c) (c_deps c) (c_baddep c) (c_ver c) (c_last c) in
                        let s1 := set_cl s (mkCl (put_obj (objs cl) c') (inv cl) (next_uid cl)) in
                        rec_add (ev (add_aband (log_req s1 (RUpdate i) true) i) (EPrune g i ASkip)) i SDelete ASkipped 0%N 0%Z
                    end
              end
        | PDelete =>
            if dryrun then rec_add (ev s (EPrune g i AOk)) i SDelete ASucceeded (c_uid c) 0%Z
            else
              let s0 := maybe_cancel s i in
              if faulted (FDelete i) then
                rec_add (ev (log_req s0 (RDelete i (c_uid c) (o_prop o)) false) (EPrune g i AFail)) i SDelete AFailed 0%N 0%Z
              else
                let cl := r_cl s0 in
                match find_obj (objs cl) i with
                | None =>   (* NotFound: idempotent success *)
                    rec_add (ev (log_req s0 (RDelete i (c_uid c) (o_prop o)) false) (EPrune g i AOk)) i SDelete ASucceeded (c_uid c) 0%Z
                | Some live =>
                    if N.eqb (c_uid live) (c_uid c) then
                      (* an object held by a finalizer is only marked terminating: it stays, annotations and all *)
                      let s1 := if u_fin (uinfo_of sc i) then s0
                                else set_cl s0 (mkCl (del_obj (objs cl) i) (inv cl) (next_uid cl)) in
                      rec_add (ev (log_req s1 (RDelete i (c_uid c) (o_prop o)) true) (EPrune g i AOk)) i SDelete ASucceeded (c_uid c) 0%Z
                    else   (* precondition failed: conflict *)
                      rec_add (ev (log_req s0 (RDelete i (c_uid c) (o_prop o)) false) (EPrune g i AFail)) i SDelete AFailed 0%N 0%Z
                end
        end
    end.

  Definition prune_task (pl : plan) (locals : list lobj) (g : gname) (s : rst) (layer : list pobj) : rst :=
    let uids := applied_uids (r_tbl s) in
    fold_left (prune_one pl locals g uids) layer s.

  (* ---- wait task ---------------------------------------------------------- *)
  Inductive wcond := AllCurrent | AllNotFound.

  Definition changed_uid (s : rst) (i : id) : bool :=
    match lookup Nat.eqb (r_tbl s) i with
    | None => false
    | Some r =>
        if N.eqb (r_uid r) 0 then false else
        let ob := cache_get (r_cache s) i in
        if negb (s_body ob) then false
        else if N.eqb (s_uid ob) 0 then false
        else negb (N.eqb (r_uid r) (s_uid ob))
    end.

  Definition cond_met (c : wcond) (s : rst) (i : id) : bool :=
    let ob := cache_get (r_cache s) i in
    kst_eqb (s_st ob) (match c with AllCurrent => SCurrent | AllNotFound => SNotFound end) &&
    Z.leb (fst (applied_gen Nat.eqb (r_tbl s) i)) (if s_body ob then s_gen ob else 0%Z).

  Definition failed_by_id (s : rst) (i : id) : bool :=
    kst_eqb (s_st (cache_get (r_cache s) i)) SFailed.

  (* WaitTask.skipped, with Go's operator precedence: (A && B) || C *)
  Definition w_skipped (c : wcond) (s : rst) (i : id) : bool :=
    let t := r_tbl s in
    let isac st a := is_actuation Nat.eqb t i st a in
    ((match c with AllCurrent => true | _ => false end) && isac SApply AFailed) || isac SApply ASkipped
    || ((match c with AllNotFound => true | _ => false end) && isac SDelete AFailed) || isac SDelete ASkipped.

  Definition handle_changed_uid (c : wcond) (g : gname) (s : rst) (i : id) : rst :=
    match c with
    | AllNotFound => ev (rec_reconcile s i RSucceeded) (EWait g i WOk)
    | AllCurrent => ev (rec_reconcile s i RFailed) (EWait g i WFailed)
    end.

  Record wstate := mkWS { w_pending : list id; w_failed : list id }.

  (* WaitTask.startInner *)
  Definition wait_start (c : wcond) (g : gname) (ids : list id) (s : rst) : rst * wstate :=
    let step (acc : rst * list id) (i : id) :=
      let '(s, pend) := acc in
      if w_skipped c s i then (ev (rec_reconcile s i RSkipped) (EWait g i WSkipped), pend)
      else if changed_uid s i then (handle_changed_uid c g s i, pend)
      else if cond_met c s i then (ev (rec_reconcile s i RSucceeded) (EWait g i WOk), pend)
      else (ev (rec_reconcile s i RPending) (EWait g i WPending), pend ++ [i]) in
    let '(s', pend) := fold_left step ids (s, []) in
    (s', mkWS pend []).

  (* WaitTask.StatusUpdate (the cache already holds the new observation) *)
  Definition wait_update (c : wcond) (g : gname) (ids : list id) (s : rst) (w : wstate) (i : id) : rst * wstate :=
    if memn i (w_pending w) then
      if changed_uid s i then
        (handle_changed_uid c g s i, mkWS (remove Nat.eqb (w_pending w) i) (w_failed w))
      else if cond_met c s i then
        (ev (rec_reconcile s i RSucceeded) (EWait g i WOk), mkWS (remove Nat.eqb (w_pending w) i) (w_failed w))
      else if failed_by_id s i then
        (ev (rec_reconcile s i RFailed) (EWait g i WFailed),
         mkWS (remove Nat.eqb (w_pending w) i) (w_failed w ++ [i]))
      else (s, w)
    else if negb (memn i ids) then (s, w)
    else if w_skipped c s i then (s, w)
    else if memn i (w_failed w) then
      if changed_uid s i then
        (handle_changed_uid c g s i, mkWS (w_pending w) (remove Nat.eqb (w_failed w) i))
      else if cond_met c s i then
        (ev (rec_reconcile s i RSucceeded) (EWait g i WOk), mkWS (w_pending w) (remove Nat.eqb (w_failed w) i))
      else if negb (failed_by_id s i) then
        (ev (rec_reconcile s i RPending) (EWait g i WPending),
         mkWS (w_pending w ++ [i]) (remove Nat.eqb (w_failed w) i))
      else (s, w)
    else
      (* settled: reconciled or replaced *)
      if changed_uid s i then
        match c with
        | AllCurrent =>
            if is_reconcile Nat.eqb (r_tbl s) i RFailed then (s, w)
            else (handle_changed_uid c g s i, w)
        | AllNotFound => (s, w)
        end
      else if negb (cond_met c s i) then
        (ev (rec_reconcile s i RPending) (EWait g i WPending), mkWS (w_pending w ++ [i]) (w_failed w))
      else if is_reconcile Nat.eqb (r_tbl s) i RFailed then
        (ev (rec_reconcile s i RSucceeded) (EWait g i WOk), w)
      else (s, w).

  Definition wait_timeout (g : gname) (s : rst) (w : wstate) : rst :=
    fold_left (fun s i => ev (rec_reconcile s i RTimeout) (EWait g i WTimedOut)) (w_pending w) s.

  (* the runner's handling of one status delivery while the wait task is current *)
  Fixpoint deliver (c : wcond) (g : gname) (ids : list id) (ds : list sobs) (s : rst) (w : wstate) : rst * wstate :=
    match ds with
    | [] => (s, w)
    | d :: t =>
        match w_pending w with
        | [] => (s, w)                      (* phase already complete: remaining deliveries dropped *)
        | _ =>
            let s1 := emit s (IDeliv d) in
            let s2 := if o_status_events o then ev s1 (EStatus (s_id d) (s_st d)) else s1 in
            let s3 := set_cache s2 (d :: r_cache s2) in
            let '(s4, w4) := if memn (s_id d) ids then wait_update c g ids s3 w (s_id d) else (s3, w) in
            deliver c g ids t s4 w4
        end
    end.

  (* WaitTask.updateRESTMapper, at the end of the task *)
  Definition wait_reset (c : wcond) (ids : list id) (s : rst) : rst :=
    if existsb (fun i => is_crd_id i && negb (w_skipped c s i)) ids
    then set_known s (live_crds (r_cl s)) else s.

  Definition wait_task (c : wcond) (g : gname) (ids : list id) (s : rst) : rst :=
    let k := snd g in
    let '(s1, w1) := wait_start c g ids s in
    match w_pending w1 with
    | [] => wait_reset c ids s1
    | _ =>
        let watch_err := match e_watch_err_at (sc_env sc) with Some n => Nat.eqb n k | None => false end in
        if watch_err then set_abort s1 else
        let ws := nth k (e_waits (sc_env sc)) (mkW [] WTimeout) in
        let '(s2, w2) := deliver c g ids (w_deliv ws) s1 w1 in
        match w_pending w2 with
        | [] => wait_reset c ids s2
        | _ =>
            let has_timeout := match c with AllCurrent => o_rec_timeout o | AllNotFound => o_prune_timeout o end in
            match w_end ws with
            | WTimeout => if has_timeout then wait_reset c ids (wait_timeout g s2 w2) else set_abort s2
            | WCancel => set_abort s2
            end
        end
    end.

  (* ---- inventory tasks ---------------------------------------------------- *)
  (* InvAddTask: inventory namespace first, then Merge.  Returns ok. *)
  Definition inv_add_task (pl : plan) (s : rst) : rst * bool :=
    let ids := map p_id (pl_apply pl) in
    let ns_local :=
      match sc_inv_ns sc with
      | Some n => find (fun p => Nat.eqb (p_id p) n) (pl_apply pl)
      | None => None
      end in
    let '(s1, ok1) :=
      match ns_local with
      | Some p =>
          match p_local p with
          | Some l =>
              if dryrun then (s, true)
              else if faulted FNsCreate then (log_req s (RNsCreate (p_id p)) false, false)
              else
                let cl := r_cl s in
                match find_obj (objs cl) (p_id p) with
                | Some _ => (log_req s (RNsCreate (p_id p)) false, true)   (* AlreadyExists is not an error *)
                | None =>
                    let u := next_uid cl in
                    let s' := set_cl s (mkCl (put_obj (objs cl) (obj_of_manifest l u (Some (cfg_of_manifest l)))) (inv cl) (N.succ u)) in
                    (log_req s' (RNsCreate (p_id p)) true, true)
                end
          | None => (s, true)
          end
      | None => (s, true)
      end in
    if ok1 then merge s1 ids else (s1, false).

  Definition destroy_successful (pl : plan) (prev : list id) (s : rst) : bool :=
    let t := r_tbl s in
    match with_actuation t SDelete AFailed, with_reconcile t RFailed, with_reconcile t RTimeout with
    | [], [], [] =>
        match diffn (with_actuation t SDelete ASkipped) (r_aband s), intern prev (pl_invalid pl) with
        | [], [] => true
        | _, _ => false
        end
    | _, _, _ => false
    end.

  (* DeleteOrUpdateInvTask.updateInventory: the retention table *)
  Definition final_inventory (pl : plan) (prev : list id) (s : rst) : list id :=
    let t := r_tbl s in
    let a0 := with_actuation t SApply ASucceeded in
    let a1 := unionn a0 (intern prev (with_actuation t SApply AFailed)) in
    let a2 := unionn a1 (intern prev (with_actuation t SApply ASkipped)) in
    let a3 := unionn a2 (intern prev (with_actuation t SDelete AFailed)) in
    let a4 := unionn a3 (intern prev (with_actuation t SDelete ASkipped)) in
    let a5 := unionn a4 (intern prev (with_reconcile t RFailed)) in
    let a6 := unionn a5 (intern prev (with_reconcile t RTimeout)) in
    let a7 := diffn a6 (r_aband s) in
    unionn a7 (intern prev (pl_invalid pl)).

  Definition delete_inventory (s : rst) : rst * bool :=
    let '(s1, r) := inv_list s in
    match r with
    | None => (s1, false)
    | Some None => (s1, true)
    | Some (Some _) =>
        if dryrun then (s1, true) else
        if faulted FInvDelete then (log_req s1 RInvDelete false, false)
        else
          let cl := r_cl s1 in
          let s2 := set_cl s1 (mkCl (objs cl) None (next_uid cl)) in
          (log_req s2 RInvDelete true, true)
    end.

  (* prev = None: the plan-time read of the inventory was rejected *)
  Definition inv_set_task (pl : plan) (prev : option (list id)) (s : rst) : rst * bool :=
    match prev with
    | None => (s, false)
    | Some pv =>
        if o_destroy o && destroy_successful pl pv s then delete_inventory s
        else replace s (final_inventory pl pv s)
    end.

  (* ---- the runner ---------------------------------------------------------- *)
  Inductive task :=
  | TInvAdd
  | TApply (k : nat) (layer : list pobj)
  | TWait (k : nat) (c : wcond) (ids : list id)
  | TPrune (k : nat) (layer : list pobj)
  | TInvSet.

  Definition task_name (t : task) : gname :=
    match t with
    | TInvAdd => (GInvAdd, 0)
    | TApply k _ => (GApply, k)
    | TWait k _ _ => (GWait, k)
    | TPrune k _ => (GPrune, k)
    | TInvSet => (GInvSet, 0)
    end.
  Definition task_ids (pl : plan) (t : task) : list id :=
    match t with
    | TInvAdd => map p_id (pl_apply pl)
    | TApply _ l => map p_id l
    | TWait _ _ ids => ids
    | TPrune _ l => map p_id l
    | TInvSet => []
    end.

  (* solver.Build: the task list with its apply / wait / prune counters *)
  Fixpoint apply_tasks (ka kw : nat) (layers : list (list pobj)) : list task * nat :=
    match layers with
    | [] => ([], kw)
    | l :: t =>
        if dryrun then let '(ts, kw') := apply_tasks (S ka) kw t in (TApply ka l :: ts, kw')
        else let '(ts, kw') := apply_tasks (S ka) (S kw) t in
             (TApply ka l :: TWait kw AllCurrent (map p_id l) :: ts, kw')
    end.
  Fixpoint prune_tasks (kp kw : nat) (layers : list (list pobj)) : list task :=
    match layers with
    | [] => []
    | l :: t =>
        if dryrun then TPrune kp l :: prune_tasks (S kp) kw t
        else TPrune kp l :: TWait kw AllNotFound (map p_id l) :: prune_tasks (S kp) (S kw) t
    end.

  Definition tasks_of (pl : plan) : list task :=
    let '(at_, kw) := match pl_apply pl with
                      | [] => ([], 0)
                      | _ => apply_tasks 0 0 (pl_apply_layers pl)
                      end in
    let pt := if o_prune o then match pl_prune pl with [] => [] | _ => prune_tasks 0 kw (pl_prune_layers pl) end else [] in
    (if o_destroy o then [] else [TInvAdd]) ++ at_ ++ pt ++ [TInvSet].

  (* one task: started, body, finished; returns ok = no task error *)
  Definition run_task (pl : plan) (locals : list lobj) (prev : option (list id)) (s : rst) (t : task) : rst * bool :=
    let g := task_name t in
    let s0 := ev s (EStarted g) in
    let '(s1, ok) :=
      match t with
      | TInvAdd => inv_add_task pl s0
      | TApply _ l => (apply_task pl g s0 l, true)
      | TWait _ c ids => (wait_task c g ids s0, true)
      | TPrune _ l => (prune_task pl locals g s0 l, true)
      | TInvSet => inv_set_task pl prev s0
      end in
    (ev s1 (EFinished g), ok).

  (* TaskStatusRunner.Run after the sync event: tasks in order until a task
     fails or the abort flag is set; exactly one error event then *)
  Fixpoint run_tasks (pl : plan) (locals : list lobj) (prev : option (list id)) (s : rst) (ts : list task) : rst :=
    match ts with
    | [] => s
    | t :: rest =>
        let '(s1, ok) := run_task pl locals prev s t in
        if negb ok then ev s1 EError
        else if r_abort s1 then ev s1 EError
        else run_tasks pl locals prev s1 rest
    end.

  (* ---- Applier.Run / Destroyer.Run ----------------------------------------- *)
  (* Pruner.GetPruneObjs: stored ids not in the local set, each fetched;
     None = a read failed (fatal) *)
  Fixpoint fetch_all (s : rst) (ids : list id) : rst * option (list cobj) :=
    match ids with
    | [] => (s, Some [])
    | i :: t =>
        if negb (kind_known (r_known s) i) then fetch_all s t else   (* no REST mapping: skipped, no GET *)
        let '(s1, g) := get_obj s i in
        match g with
        | GFault => (s1, None)
        | GNotFound => fetch_all s1 t
        | GFound c =>
            let '(s2, r) := fetch_all s1 t in
            (s2, option_map (cons c) r)
        end
    end.

  Definition init_state (c : cluster) : rst := mkR c [] [] [] 0 0 0 [] [] false (live_crds c).

  Definition register (pl : plan) (s : rst) : rst :=
    let s1 := fold_left (fun s p => rec_add s (p_id p) SApply APending 0%N 0%Z) (pl_apply pl) s in
    let s2 := if o_prune o
              then fold_left (fun s p => rec_add s (p_id p) SDelete APending 0%N 0%Z) (pl_prune pl) s1
              else s1 in
    (* applier.go: with pruning disabled every fetched prune candidate is a skipped delete *)
    if negb (o_destroy o) && negb (o_prune o)
    then fold_left (fun s p => rec_add s (p_id p) SDelete ASkipped 0%N 0%Z) (pl_prune_all pl) s2
    else s2.

  Definition finish (s : rst) : outcome :=
    mkOut (rev (IClosed :: r_tr s)) (norm_cluster (r_cl s)).

  Definition run (c0 : cluster) : outcome :=
    let locals := if o_destroy o then [] else sc_local sc in
    let s0 := init_state c0 in
    (* GetPruneObjs *)
    let '(s1, r1) := inv_list s0 in
    match r1 with
    | None => finish (ev s1 EError)
    | Some st =>
        let prev0 := match st with Some l => l | None => [] end in
        let cand := sortn (diffn prev0 (map l_id locals)) in
        let '(s2, r2) := fetch_all s1 cand in
        match r2 with
        | None => finish (ev s2 EError)
        | Some pobjs =>
            let pl := build_plan (r_known s2) locals pobjs in
            let s3 := register pl s2 in
            (* solver: second read of the inventory *)
            let '(s4, r4) := inv_list s3 in
            let prev := option_map (fun st => match st with Some l => l | None => [] end) r4 in
            match o_valpol o, pl_valerrs pl with
            | VExitEarly, _ :: _ => finish (ev s4 EError)
            | _, errs =>
                let s5 := fold_left (fun s e => ev s (EValidation (sortn e))) errs s4 in
                let ts := tasks_of pl in
                let s6 := ev s5 (EInit (map (fun t => (task_name t, task_ids pl t)) ts)) in
                match e_cancel (sc_env sc) with
                | CBeforeSync => finish (ev s6 EError)
                | _ => finish (run_tasks pl locals prev s6 ts)
                end
            end
        end
    end.
End Run.
