(* Model of object.ObjMetadata and of pkg/ordering/sort.go (`less`,
   `IsLessThan`, `Equals`, the groupKind2index table).  No proofs here. *)
From Coq Require Import List Bool Arith String Ascii.
Import ListNotations.
Local Open Scope string_scope.

(* object.ObjMetadata{Namespace, Name, GroupKind{Group, Kind}} *)
Record id := mkId { grp : string; knd : string; ns : string; nm : string }.

(* Go struct equality *)
Definition id_eqb (a b : id) : bool :=
  String.eqb (grp a) (grp b) && String.eqb (knd a) (knd b)
  && String.eqb (ns a) (ns b) && String.eqb (nm a) (nm b).

(* Go `<` on strings is bytewise lexicographic = String.ltb *)
Definition str_ltb (a b : string) : bool := String.ltb a b.

(* computeGroupKind2index: orderFirst, in this order *)
Definition order_first : list (string * string) :=
  [ ("", "Namespace");
    ("", "ResourceQuota");
    ("storage.k8s.io", "StorageClass");
    ("apiextensions.k8s.io", "CustomResourceDefinition");
    ("admissionregistration.k8s.io", "MutatingWebhookConfiguration");
    ("", "ServiceAccount");
    ("extensions", "PodSecurityPolicy");
    ("policy", "PodSecurityPolicy");
    ("rbac.authorization.k8s.io", "Role");
    ("rbac.authorization.k8s.io", "ClusterRole");
    ("rbac.authorization.k8s.io", "RoleBinding");
    ("rbac.authorization.k8s.io", "ClusterRoleBinding");
    ("", "ConfigMap");
    ("", "Secret");
    ("", "Service");
    ("", "LimitRange");
    ("scheduling.k8s.io", "PriorityClass");
    ("extensions", "Deployment");
    ("apps", "Deployment");
    ("apps", "StatefulSet");
    ("batch", "CronJob");
    ("policy", "PodDisruptionBudget") ].

Definition order_last : list (string * string) :=
  [ ("admissionregistration.k8s.io", "ValidatingWebhookConfiguration") ].

Fixpoint find_gk (g k : string) (l : list (string * string)) (i : nat) : option nat :=
  match l with
  | [] => None
  | (g', k') :: t =>
      if String.eqb g g' && String.eqb k k' then Some i else find_gk g k t (S i)
  end.

(* groupKind2index[gk], shifted by +len(orderFirst) so that it is a nat:
   orderFirst[i] -> i (Go: -len+i), absent -> len (Go: 0, the map's zero
   value), orderLast[i] -> len+1+i (Go: 1+i).  The shift is monotone, only
   `<` and `!=` of two indices are ever used. *)
Definition gk_index (g k : string) : nat :=
  match find_gk g k order_first 0 with
  | Some i => i
  | None =>
      match find_gk g k order_last 0 with
      | Some i => List.length order_first + 1 + i
      | None => List.length order_first
      end
  end.

(* ordering.Equals *)
Definition gk_equals (g1 k1 g2 k2 : string) : bool :=
  String.eqb g1 g2 && String.eqb k1 k2.

(* ordering.IsLessThan *)
Definition gk_is_less_than (g1 k1 g2 k2 : string) : bool :=
  let i := gk_index g1 k1 in
  let j := gk_index g2 k2 in
  if negb (Nat.eqb i j) then Nat.ltb i j
  else if negb (String.eqb g1 g2) then str_ltb g1 g2
  else str_ltb k1 k2.

(* ordering.less *)
Definition id_ltb (i j : id) : bool :=
  if negb (gk_equals (grp i) (knd i) (grp j) (knd j)) then
    gk_is_less_than (grp i) (knd i) (grp j) (knd j)
  else if negb (String.eqb (ns i) (ns j)) then str_ltb (ns i) (ns j)
  else str_ltb (nm i) (nm j).

(* schema.GroupKind.String(): "Kind.group", or "Kind" for the core group *)
Definition gk_string (g k : string) : string :=
  if String.eqb g "" then k else k ++ "." ++ g.
