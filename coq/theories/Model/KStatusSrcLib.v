(* Run-time library of the Gallina code that harness/cmd/genkstatus emits from
   the Go sources of pkg/kstatus/status (Generated/KStatusSrc.v).

   The generated definitions are a syntax-directed image of the Go functions;
   what Go has and Gallina lacks is supplied here, once, by hand:

     ( *Result, error )        gres * bool       (nil pointer = None, nil error = false)
     v, found, err := Nested*  go_nested_* : value * bool * bool, built on Base/Json.v
     v, ok := x.(T)            go_as_*     : value * bool  (zero value when not ok)
     v, ok := m[k]             go_map_get
     for _, x := range l {..}  range_loop body l state : early return (inl) or final state (inr)
     int arithmetic            64-bit wrap-around (Json.wrap64)

   No proofs in this file. *)
From Coq Require Import List Bool ZArith String.
From CliUtils Require Import Base.Json Model.KStatus.
Import ListNotations.
Local Open Scope string_scope.

(* *Result: Status and the (Type, Status) shape of Conditions; Message, and
   Reason / Message of the conditions, are not observables of the model *)
Definition gres := option (status * list rcond).

Definition is_some {A : Type} (o : option A) : bool :=
  match o with Some _ => true | None => false end.

(* the observable of a ( *Result, error ) pair: the error wins (every caller
   tests err first), (nil, nil) is None *)
Definition to_outcome (p : gres * bool) : option outcome :=
  match p with
  | (_, true) => Some Err
  | (Some (s, cs), false) => Some (Ok s cs)
  | (None, false) => None
  end.

(* for _, x := range l { body }: body returns inl r for `return r`, inr s for
   falling off the end / `continue` with the loop-carried variables s *)
Fixpoint range_loop {A S R : Type} (body : A -> S -> R + S) (l : list A) (s : S) : R + S :=
  match l with
  | [] => inr s
  | x :: t =>
      match body x s with
      | inl r => inl r
      | inr s' => range_loop body t s'
      end
  end.

(* ---- k8s.io/apimachinery/pkg/apis/meta/v1/unstructured: (value, found, err) *)
Definition go_nested_string (j : jv) (p : list string) : string * bool * bool :=
  match nested_string j p with
  | Found s => (s, true, false)
  | Absent => ("", false, false)
  | AErr => ("", false, true)
  end.
Definition go_nested_int64 (j : jv) (p : list string) : Z * bool * bool :=
  match nested_int64 j p with
  | Found z => (z, true, false)
  | Absent => (0%Z, false, false)
  | AErr => (0%Z, false, true)
  end.
Definition go_nested_slice (j : jv) (p : list string) : list jv * bool * bool :=
  match nested_slice j p with
  | Found l => (l, true, false)
  | Absent => ([], false, false)
  | AErr => ([], false, true)
  end.
Definition go_nested_map (j : jv) (p : list string) : jv * bool * bool :=
  match nested_map j p with
  | Found kv => (JObj kv, true, false)
  | Absent => (JNull, false, false)
  | AErr => (JNull, false, true)
  end.
Definition go_nested_field (j : jv) (p : list string) : jv * bool * bool :=
  match nested_field j p with
  | Found v => (v, true, false)
  | Absent => (JNull, false, false)
  | AErr => (JNull, false, true)
  end.

(* status.GetObjectWithConditions: ( *ObjWithConditions, error ); the pointer is
   represented by its .Status.Conditions *)
Definition go_get_object_with_conditions (j : jv) : list bcond * bool :=
  match get_object_with_conditions j with
  | Some cs => (cs, false)
  | None => ([], true)
  end.

(* ---- checked type assertions v, ok := x.(T) on interface{} values -------- *)
(* map[string]interface{} values are trees; the nil map is JNull *)
Definition go_as_map (v : jv) : jv * bool :=
  match v with JObj kv => (JObj kv, true) | _ => (JNull, false) end.
Definition go_as_string (v : jv) : string * bool :=
  match v with JStr s => (s, true) | _ => ("", false) end.
Definition go_as_slice (v : jv) : list jv * bool :=
  match v with JArr l => (l, true) | _ => ([], false) end.
Definition go_as_int64 (v : jv) : Z * bool :=
  match v with JInt z => (z, true) | _ => (0%Z, false) end.
Definition go_as_bool (v : jv) : bool * bool :=
  match v with JBool b => (b, true) | _ => (false, false) end.
(* v, ok := m[k]; indexing the nil map finds nothing *)
Definition go_map_get (m : jv) (k : string) : jv * bool :=
  match m with
  | JObj kv => match lookup k kv with Some v => (v, true) | None => (JNull, false) end
  | _ => (JNull, false)
  end.
(* x == nil for an interface{} value *)
Definition go_is_nil (v : jv) : bool :=
  match v with JNull => true | _ => false end.

(* ---- int: 64-bit two's complement ----------------------------------------- *)
Definition add64 (a b : Z) : Z := wrap64 (a + b).
Definition mul64 (a b : Z) : Z := wrap64 (a * b).
Definition neg64 (a : Z) : Z := wrap64 (- a).

(* ---- lookups in the tables of Generated/SourceTables.v -------------------- *)
Fixpoint assoc (key : string) (l : list (string * string)) : option string :=
  match l with
  | [] => None
  | (k, v) :: t => if String.eqb key k then Some v else assoc key t
  end.

Definition status_eqb (a b : status) : bool :=
  match a, b with
  | InProgress, InProgress | Failed, Failed | Current, Current
  | Terminating, Terminating | NotFound, NotFound | Unknown, Unknown => true
  | _, _ => false
  end.
