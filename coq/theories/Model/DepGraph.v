(* Model of pkg/object/graph/depends.go: DependencyGraph (vertices, CRD edges,
   namespace edges, depends-on edges, apply-time-mutation edges — the four
   edge passes in the order DependencyGraph calls them), SortObjs,
   ReverseSortObjs.  No proofs.

   Generic in the vertex type V with a projection `idof : V -> id`; the
   theorems instantiate V := id, idof := fun x => x; the correspondence uses
   V := nat (an index into a table of ids).

   Not modelled: the text of error messages, the object payload (an object is
   represented by what DependencyGraph reads of it: its id, its parsed
   depends-on annotation, the source references of its parsed
   apply-time-mutation annotation (FieldSubstitution.SourceRef.ToObjMetadata(),
   one per substitution, in annotation order; source/target paths and tokens
   are not read by DependencyGraph) and, for CRDs, spec.group /
   spec.names.kind). *)
From Coq Require Import List Bool Arith String.
From CliUtils Require Import Model.ObjSet Model.ObjId Model.Graph.
Import ListNotations.
Local Open Scope string_scope.

Section DepGraph.
  Variable V : Type.
  Variable eqb : V -> V -> bool.
  Variable ltb : V -> V -> bool.
  Variable idof : V -> id.

  (* the depends-on annotation as read by dependson.ReadAnnotation *)
  Inductive dep_annot :=
  | NoAnnot                      (* annotation absent *)
  | BadAnnot                     (* present but ParseDependencySet fails *)
  | Deps (l : list V).           (* parsed references, in annotation order *)

  (* the apply-time-mutation annotation as read by mutation.ReadAnnotation,
     projected to what addApplyTimeMutationEdges uses of it *)
  Inductive mut_annot :=
  | NoMut                        (* annotation absent *)
  | BadMut                       (* present but yaml.Unmarshal fails *)
  | Muts (l : list V).           (* SourceRef.ToObjMetadata() of every substitution, in annotation order *)

  Record obj := mkObj {
    oid : V;
    odeps : dep_annot;
    omuts : mut_annot;
    (* GetCRDGroupKind: (spec.group, spec.names.kind) when both are strings *)
    ocrd : option (string * string)
  }.

  Definition is_crd (i : id) : bool :=
    String.eqb (grp i) "apiextensions.k8s.io" && String.eqb (knd i) "CustomResourceDefinition".
  Definition is_kind_namespace (i : id) : bool :=
    String.eqb (grp i) "" && String.eqb (knd i) "Namespace".

  (* what an object provides to the `crds` map of addCRDEdges under a key
     (GroupKind.String() of its spec), and to the `namespaces` map of
     addNamespaceEdges under a name *)
  Definition f_crd (key : string) (o : obj) : option V :=
    if is_crd (idof (oid o)) then
      match ocrd o with
      | Some (g, k) => if String.eqb (gk_string g k) key then Some (oid o) else None
      | None => None
      end
    else None.

  Definition f_ns (name : string) (o : obj) : option V :=
    if is_kind_namespace (idof (oid o)) && String.eqb (nm (idof (oid o))) name
    then Some (oid o) else None.

  (* crds[key] / namespaces[name]: ALL providers, appended in input order *)
  Definition providers (f : obj -> option V) (objs : list obj) : list V :=
    flat_map (fun o => match f o with Some t => [t] | None => [] end) objs.

  Definition crd_lookup (objs : list obj) (key : string) : list V := providers (f_crd key) objs.
  Definition ns_lookup (objs : list obj) (name : string) : list V := providers (f_ns name) objs.

  (* addCRDEdges: an edge to every CRD object defining the object's group/kind *)
  Definition crd_edges (objs : list obj) : list (V * V) :=
    flat_map (fun o =>
                let i := idof (oid o) in
                map (fun to => (oid o, to)) (crd_lookup objs (gk_string (grp i) (knd i)))) objs.

  (* addNamespaceEdges: an edge to every Namespace-kind object named like the
     object's namespace *)
  Definition ns_edges (objs : list obj) : list (V * V) :=
    flat_map (fun o =>
                let i := idof (oid o) in
                if negb (String.eqb (ns i) "") then
                  map (fun to => (oid o, to)) (ns_lookup objs (ns i))
                else []) objs.

  (* inner loop of addDependsOnEdges for one object: a repeated reference is
     an error and skipped, a reference outside the object set is an error and
     skipped, anything else becomes an edge.  Returns (edges, had_error). *)
  Fixpoint dep_edges_of (from : V) (ids : list V) (deps seen : list V) : list (V * V) * bool :=
    match deps with
    | [] => ([], false)
    | d :: t =>
        if mem eqb d seen then
          let '(es, _) := dep_edges_of from ids t seen in (es, true)
        else if negb (mem eqb d ids) then
          let '(es, _) := dep_edges_of from ids t (d :: seen) in (es, true)
        else
          let '(es, e) := dep_edges_of from ids t (d :: seen) in ((from, d) :: es, e)
    end.

  Definition obj_dep_edges (ids : list V) (o : obj) : list (V * V) * bool :=
    match odeps o with
    | NoAnnot => ([], false)
    | BadAnnot => ([], true)
    | Deps l => dep_edges_of (oid o) ids l []
    end.

  Definition dep_edges (objs : list obj) : list (V * V) :=
    let ids := map oid objs in
    flat_map (fun o => fst (obj_dep_edges ids o)) objs.

  (* ids of the objects whose depends-on annotation produced a validation
     error (the error list of addDependsOnEdges, in object order) *)
  Definition depends_on_errors (objs : list obj) : list V :=
    let ids := map oid objs in
    flat_map (fun o => if snd (obj_dep_edges ids o) then [oid o] else []) objs.

  (* inner loop of addApplyTimeMutationEdges for one object: a repeated source
     reference is skipped SILENTLY ("Duplicate dependencies can be safely
     skipped"), a source outside the object set is an error and skipped,
     anything else becomes an edge object -> source.  Returns (edges, had_error). *)
  Fixpoint mut_edges_of (from : V) (ids : list V) (srcs seen : list V) : list (V * V) * bool :=
    match srcs with
    | [] => ([], false)
    | d :: t =>
        if mem eqb d seen then
          mut_edges_of from ids t seen
        else if negb (mem eqb d ids) then
          let '(es, _) := mut_edges_of from ids t (d :: seen) in (es, true)
        else
          let '(es, e) := mut_edges_of from ids t (d :: seen) in ((from, d) :: es, e)
    end.

  Definition obj_mut_edges (ids : list V) (o : obj) : list (V * V) * bool :=
    match omuts o with
    | NoMut => ([], false)
    | BadMut => ([], true)
    | Muts l => mut_edges_of (oid o) ids l []
    end.

  Definition mut_edges (objs : list obj) : list (V * V) :=
    let ids := map oid objs in
    flat_map (fun o => fst (obj_mut_edges ids o)) objs.

  (* the error list of addApplyTimeMutationEdges, in object order *)
  Definition mutation_errors (objs : list obj) : list V :=
    let ids := map oid objs in
    flat_map (fun o => if snd (obj_mut_edges ids o) then [oid o] else []) objs.

  (* the ids named by the error of DependencyGraph:
       errors = [err of addDependsOnEdges; err of addApplyTimeMutationEdges]
     flattened by multierror.Wrap: first every object the depends-on pass
     rejected, then every object the mutation pass rejected (an object rejected
     by both passes is named twice) *)
  Definition dep_errors (objs : list obj) : list V :=
    depends_on_errors objs ++ mutation_errors objs.

  (* all AddEdge calls of DependencyGraph, in call order: addCRDEdges,
     addNamespaceEdges, addDependsOnEdges, addApplyTimeMutationEdges *)
  Definition all_edges (objs : list obj) : list (V * V) :=
    crd_edges objs ++ ns_edges objs ++ dep_edges objs ++ mut_edges objs.

  (* DependencyGraph *)
  Definition dependency_graph (objs : list obj) : gmap V :=
    match objs with
    | [] => []
    | _ :: _ => build eqb (map oid objs) (all_edges objs)
    end.

  (* observable result of SortObjs: the apply sets as ids, the ids named by
     the cyclic dependency error (if any), the ids with annotation errors *)
  Record sorted_objs := mkSorted {
    s_sets : list (list V);
    s_cyc : option (list V);
    s_bad : list V
  }.

  (* SortObjs.  None = the fuel of the sort loop ran out (excluded by
     DepGraphProofs.sort_objs_total). *)
  Definition sort_objs (objs : list obj) : option sorted_objs :=
    match objs with
    | [] => Some (mkSorted [] None [])
    | _ :: _ =>
        match sort eqb ltb (dependency_graph objs) with
        | None => None
        | Some (layers, err) =>
            Some (mkSorted (hydrate eqb ltb layers (map oid objs))
                           (option_map fst err) (dep_errors objs))
        end
    end.

  Definition has_error (s : sorted_objs) : bool :=
    match s_cyc s, s_bad s with
    | None, [] => false
    | _, _ => true
    end.

  (* ReverseSortObjs: `s, err := SortObjs(objs); ReverseSetList(s); return s, err`
     — the sets are reversed whether or not there is an error *)
  Definition reverse_sort_objs (objs : list obj) : option sorted_objs :=
    match sort_objs objs with
    | None => None
    | Some s => Some (mkSorted (reverse_set_list (s_sets s)) (s_cyc s) (s_bad s))
    end.
End DepGraph.

Arguments NoAnnot {V}.
Arguments BadAnnot {V}.
Arguments Deps {V} l.
Arguments NoMut {V}.
Arguments BadMut {V}.
Arguments Muts {V} l.
Arguments mkObj {V} oid odeps omuts ocrd.
Arguments oid {V} o.
Arguments odeps {V} o.
Arguments omuts {V} o.
Arguments ocrd {V} o.
Arguments mkSorted {V} s_sets s_cyc s_bad.
Arguments s_sets {V} s.
Arguments s_cyc {V} s.
Arguments s_bad {V} s.
Arguments f_crd {V} idof key o.
Arguments f_ns {V} idof name o.
Arguments providers {V} f objs.
Arguments crd_lookup {V} idof objs key.
Arguments crd_edges {V} idof objs.
Arguments ns_lookup {V} idof objs name.
Arguments ns_edges {V} idof objs.
Arguments dep_edges_of {V} eqb from ids deps seen.
Arguments obj_dep_edges {V} eqb ids o.
Arguments dep_edges {V} eqb objs.
Arguments depends_on_errors {V} eqb objs.
Arguments mut_edges_of {V} eqb from ids srcs seen.
Arguments obj_mut_edges {V} eqb ids o.
Arguments mut_edges {V} eqb objs.
Arguments mutation_errors {V} eqb objs.
Arguments dep_errors {V} eqb objs.
Arguments all_edges {V} eqb idof objs.
Arguments dependency_graph {V} eqb idof objs.
Arguments sort_objs {V} eqb ltb idof objs.
Arguments has_error {V} s.
Arguments reverse_sort_objs {V} eqb ltb idof objs.
