(* Model of aggregator.AggregateStatus (pkg/kstatus/polling/aggregator). *)
From Coq Require Import List Bool.
From CliUtils Require Import Model.Engine.
Import ListNotations.

(* the loop with its early return; the two flags as loop state *)
Fixpoint agg_loop (l : list status) (desired : status) (allDesired anyUnknown : bool) : status :=
  match l with
  | [] => if anyUnknown then Unknown else if allDesired then desired else InProgress
  | s :: t =>
      if status_eqb s Failed then Failed
      else agg_loop t desired
             (if negb (status_eqb s desired) then false else allDesired)
             (if status_eqb s Unknown then true else anyUnknown)
  end.

Definition aggregate (l : list status) (desired : status) : status :=
  match l with
  | [] => desired                       (* len(rss) == 0 *)
  | _ => agg_loop l desired true false
  end.

(* AggregateStatus takes resource statuses and looks only at .Status *)
Definition aggregate_rs (l : list rstatus) (desired : status) : status :=
  aggregate (map rs_status l) desired.

(* the rule as stated in the property *)
Definition aggregate_spec (l : list status) (desired : status) : status :=
  if existsb (fun s => status_eqb s Failed) l then Failed
  else if existsb (fun s => status_eqb s Unknown) l then Unknown
  else if forallb (fun s => status_eqb s desired) l then desired
  else InProgress.
