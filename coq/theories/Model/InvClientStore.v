(* Model of the inventory client's writes, pkg/inventory/inventory-client.go:
     ClusterClient.Merge, Replace, GetClusterObjs
   over an abstract stored inventory: the inventory object in the cluster is
   absent, or it holds one key per identifier of a list (its data section is
   `build_obj_map l _`, Model/IdCodec.v; status values play no role for the
   keys and are left out).  The client validates through ConfigMap.Store
   (`cm_store`) and reads through ConfigMap.Load (`cm_load`); what reaches the
   API server is recorded as a list of mutating requests.  No proofs here. *)
From Coq Require Import List Bool Arith String Ascii.
From CliUtils Require Import Base.Strings Model.IdCodec Model.ObjSet.
Import ListNotations.

(* common.DryRunStrategy *)
Inductive dry := DryNone | DryClient | DryServer.
(* ClientOrServerDryRun *)
Definition is_dry (d : dry) : bool := match d with DryNone => false | _ => true end.

(* inventory.StatusPolicy *)
Inductive policy := PolNone | PolAll.
Definition pol_none (p : policy) : bool := match p with PolNone => true | PolAll => false end.

(* a mutating request for the inventory resource; the client only ever
   creates or updates, the other constructors exist for the observations *)
Inductive req := RCreate | RUpdate | RPatch | RDelete | ROther.

(* the inventory object in the cluster *)
Definition istore := option (list oid).

(* the data section of the stored object *)
Definition stored_data (l : list oid) : cmdata := DMap (build_obj_map l []).

Definition stored_keys (s : istore) : option (list string) :=
  match s with None => None | Some l => Some (map_keys (build_obj_map l [])) end.

(* GetClusterObjs: no inventory object yet = the empty set, otherwise Load of
   the wrapped cluster object *)
Definition client_get (s : istore) : result (list oid) :=
  match s with
  | None => Ok []
  | Some l => cm_load (wrap (stored_data l))
  end.

(* ListClusterInventoryObjs, projected on the one inventory object of the model: no object =
   the empty map (no entry); otherwise the entry of that object is Load of it, and a Load
   error is the error of the whole call *)
Definition client_list (s : istore) : result (option (list oid)) :=
  match s with
  | None => Ok None
  | Some _ => match client_get s with Ok l => Ok (Some l) | Err => Err end
  end.

Record outcome := mkOutcome {
  oc_err : bool;            (* the operation returned an error *)
  oc_reqs : list req;       (* mutating requests sent, in order *)
  oc_store : istore;        (* the inventory object in the cluster afterwards *)
  oc_prune : list oid       (* the set Merge returns (objects to prune) *)
}.

Definition rejected (s : istore) (prune : list oid) : outcome := mkOutcome true [] s prune.
Definition accepted (reqs : list req) (s : istore) (prune : list oid) : outcome :=
  mkOutcome false reqs s prune.

(* Merge.  First run (no inventory object): Store the apply set into the
   local template; an error is returned at once; dry-run stops before Apply;
   Apply = GET (not found) + CREATE.  Otherwise: load the cluster set (error =>
   return), prune = cluster \ objs, Store (cluster U objs) into the cluster
   object (error => return with the prune set), no write when the sets are
   equal and no status is kept, none in a dry-run, else Apply = GET + UPDATE. *)
Definition client_merge (p : policy) (d : dry) (s : istore) (objs : list oid) : outcome :=
  match s with
  | None =>
      let (c', err) := cm_store (wrap DAbsent) objs [] in
      if err then rejected s []
      else if is_dry d then accepted [] s []
      else accepted [RCreate] (Some (cm_objs c')) []
  | Some cur =>
      match client_get s with
      | Err => rejected s []
      | Ok cl =>
          let prune := diff oid_eqb cl objs in
          let (c', err) := cm_store (wrap (stored_data cur)) (union oid_eqb cl objs) [] in
          if err then rejected s prune
          else if equal oid_eqb objs cl && pol_none p then accepted [] s prune
          else if is_dry d then accepted [] s prune
          else accepted [RUpdate] (Some (cm_objs c')) prune
      end
  end.

(* Replace.  The whole function is skipped in a dry-run.  Otherwise: load the
   cluster set (error => return), Store objs into the cluster object (error =>
   return), no write when the sets are equal and no status is kept, else
   ApplyWithPrune = UPDATE.  Without an inventory object in the cluster the
   wrapper holds no object and GetObject cannot produce one: the call fails
   (by a nil dereference) without having sent anything. *)
Definition client_replace (p : policy) (d : dry) (s : istore) (objs : list oid) : outcome :=
  if is_dry d then accepted [] s []
  else match s with
  | None => rejected s []
  | Some cur =>
      match client_get s with
      | Err => rejected s []
      | Ok cl =>
          let (c', err) := cm_store (wrap (stored_data cur)) objs [] in
          if err then rejected s []
          else if equal oid_eqb objs cl && pol_none p then accepted [] s []
          else accepted [RUpdate] (Some (cm_objs c')) []
      end
  end.

(* one operation of a run on the inventory *)
Inductive opkind := OMerge | OReplace.

Definition client_op (k : opkind) (p : policy) (d : dry) (s : istore) (objs : list oid) : outcome :=
  match k with
  | OMerge => client_merge p d s objs
  | OReplace => client_replace p d s objs
  end.

(* Replace in a dry-run does nothing at all, for any argument *)
Definition op_skipped (k : opkind) (d : dry) : bool :=
  match k with OReplace => is_dry d | OMerge => false end.

(* the set the next run is meant to find: Merge keeps what the cluster had *)
Definition op_expected (k : opkind) (cl objs : list oid) : list oid :=
  match k with OMerge => cl ++ objs | OReplace => objs end.

(* every identifier of the set can be stored (ConfigMap.Store's check) *)
Definition encodable_set (ids : list oid) : bool := forallb storable ids.
