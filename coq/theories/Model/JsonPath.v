(* C18 — model of pkg/jsonpath (Get / Set) over abstract JSON trees.

   Two layers:
   * the pure tree layer ([jget], [jput], [blank]) for the documented path
     subset `$.a.b[0]` = lists of [Key s | Idx n];
   * [jget_c] / [jset]: jsonpath.Get / jsonpath.Set as they behave today,
     i.e. the tree layer followed by what the JSON -> YAML text round trip
     (encoding/json -> ajson -> yaml.v3) does to strings ([codec_rt]).  The
     codec chain itself is NOT modelled; [codec_rt] only records the two
     observable effects that were found by probing the real code:
       - a raw U+007F, U+0080..U+009F (except U+0085), U+FFFE or U+FFFF in
         any string or key, or U+0085 in a key, makes yaml.v3 refuse the text
         (Set / Get return an error);
       - U+0085 (NEL) inside a string value is folded to one space (exact
         for an isolated NEL between non-blank characters, which is what the
         correspondence generates).
   The type is called [tv] so that it does not clash with Base/Json.v.
   No proofs in this file. *)
From Coq Require Import List Bool Arith ZArith String Ascii.
From CliUtils Require Import Base.StrReplace.
Import ListNotations.

Inductive tv :=
| TNull
| TBool (b : bool)
| TInt (z : Z)
| TFlt (m e : Z)            (* m * 2^e, m odd: only ever compared structurally *)
| TStr (s : string)
| TArr (l : list tv)
| TObj (kv : list (string * tv)).

Inductive seg := Key (k : string) | Idx (n : nat).
Definition path := list seg.

Definition seg_eqb (a b : seg) : bool :=
  match a, b with
  | Key x, Key y => String.eqb x y
  | Idx x, Idx y => Nat.eqb x y
  | _, _ => false
  end.

(* ---- objects as association lists (first binding wins) ------------------ *)
Fixpoint lookup (k : string) (kv : list (string * tv)) : option tv :=
  match kv with
  | [] => None
  | (k', x) :: r => if String.eqb k k' then Some x else lookup k r
  end.

Fixpoint update (k : string) (c : tv) (kv : list (string * tv)) : list (string * tv) :=
  match kv with
  | [] => []
  | (k', x) :: r => if String.eqb k k' then (k', c) :: r else (k', x) :: update k c r
  end.

Fixpoint list_set (n : nat) (c : tv) (l : list tv) : list tv :=
  match l, n with
  | [], _ => []
  | _ :: r, O => c :: r
  | x :: r, S n' => x :: list_set n' c r
  end.

(* one step of ajson's ApplyJSONPath for the typed subset: a key selects a
   member of an object, an index an element of an array; anything else
   selects nothing.  (ajson additionally lets numeric text index arrays,
   `[0]` address a member called "0", negative indexes count from the end and
   `.length` yield a synthetic node: outside the subset, see notes/C18.md.) *)
Definition child (s : seg) (t : tv) : option tv :=
  match s, t with
  | Key k, TObj kv => lookup k kv
  | Idx n, TArr l => nth_error l n
  | _, _ => None
  end.

Definition put_child (s : seg) (c : tv) (t : tv) : tv :=
  match s, t with
  | Key k, TObj kv => TObj (update k c kv)
  | Idx n, TArr l => TArr (list_set n c l)
  | _, _ => t
  end.

(* root.JSONPath(expr): the matching nodes (0 or 1 for this subset) *)
Fixpoint jget (p : path) (t : tv) : list tv :=
  match p with
  | [] => [t]
  | s :: p' => match child s t with
               | Some c => jget p' c
               | None => []
               end
  end.

(* node.Set...(value) on the matching node; None = no node matched *)
Fixpoint jput (p : path) (v : tv) (t : tv) : option tv :=
  match p with
  | [] => Some v
  | s :: p' => match child s t with
               | Some c => match jput p' v c with
                           | Some c' => Some (put_child s c' t)
                           | None => None
                           end
               | None => None
               end
  end.

(* the tree with the field at [p] overwritten by a fixed placeholder:
   two trees are "equal outside p" iff their blanked versions are equal *)
Definition blank (p : path) (t : tv) : option tv := jput p TNull t.

Fixpoint is_prefix (p q : path) : bool :=
  match p, q with
  | [], _ => true
  | a :: p', b :: q' => seg_eqb a b && is_prefix p' q'
  | _ :: _, [] => false
  end.
Definition prefix_related (p q : path) : bool := is_prefix p q || is_prefix q p.

(* ---- what the text round trip does to strings --------------------------- *)
Definition b7F := byte 127.
Definition bC2 := ascii_of_nat 194.
Definition nel := String bC2 (byte 133).
Definition uFFFE := String (ascii_of_nat 239) (String (ascii_of_nat 191) (byte 190)).
Definition uFFFF := String (ascii_of_nat 239) (String (ascii_of_nat 191) (byte 191)).

(* C2 80 .. C2 9F except C2 85 *)
Fixpoint has_c1 (s : string) : bool :=
  match s with
  | EmptyString => false
  | String c s' =>
      match s' with
      | String d _ =>
          (Ascii.eqb c bC2 &&
           let n := nat_of_ascii d in
           Nat.leb 128 n && Nat.leb n 159 && negb (Nat.eqb n 133)) || has_c1 s'
      | EmptyString => false
      end
  end.

Definition str_reject (s : string) : bool :=
  contains b7F s || has_c1 s || contains uFFFE s || contains uFFFF s.
Definition has_nel (s : string) : bool := contains nel s.
Definition key_reject (k : string) : bool := str_reject k || has_nel k.
Definition nel_fix (s : string) : string :=
  if has_nel s then replace_all s nel " " else s.
Definition str_clean (s : string) : bool := negb (str_reject s) && negb (has_nel s).

Fixpoint tree_bad (t : tv) : bool :=
  match t with
  | TStr s => str_reject s
  | TArr l => existsb tree_bad l
  | TObj kv => existsb (fun kx => key_reject (fst kx) || tree_bad (snd kx)) kv
  | _ => false
  end.

Fixpoint tree_fix (t : tv) : tv :=
  match t with
  | TStr s => TStr (nel_fix s)
  | TArr l => TArr (map tree_fix l)
  | TObj kv => TObj (map (fun kx => (fst kx, tree_fix (snd kx))) kv)
  | _ => t
  end.

(* text round trip of a whole document: refused, or read back *)
Definition codec_rt (t : tv) : option tv :=
  if tree_bad t then None else Some (tree_fix t).

(* every string and key passes through the round trip unchanged *)
Fixpoint tree_clean (t : tv) : bool :=
  match t with
  | TStr s => str_clean s
  | TArr l => forallb tree_clean l
  | TObj kv => forallb (fun kx => str_clean (fst kx) && tree_clean (snd kx)) kv
  | _ => true
  end.

(* ---- jsonpath.Get / jsonpath.Set ---------------------------------------- *)
Inductive jerr := JERoot | JEUnsupported | JECodec.
Inductive getres := GetOk (vs : list tv) | GetErr.
Inductive setres := SetOk (t' : tv) (n : nat) | SetErr (e : jerr).

Fixpoint map_opt {A B} (f : A -> option B) (l : list A) : option (list B) :=
  match l with
  | [] => Some []
  | x :: r => match f x, map_opt f r with
              | Some y, Some r' => Some (y :: r')
              | _, _ => None
              end
  end.

(* Get: each matching node is marshalled on its own and read back by yaml.v3 *)
Definition jget_c (p : path) (t : tv) : getres :=
  match map_opt codec_rt (jget p t) with
  | Some vs => GetOk vs
  | None => GetErr
  end.

Definition max_int64 : Z := 9223372036854775807.
(* Set's type switch: bool, string, int, float64, list, map, nil.  A Go value
   read by yaml.v3 is `int` up to 2^63-1 and `uint64` above, which falls into
   `default: unsupported value type`. *)
Definition settable (v : tv) : bool :=
  match v with
  | TInt z => Z.leb z max_int64
  | _ => true
  end.

(* Set.  The root path `$` is outside the modelled subset (the result is
   unmarshalled INTO the existing map, which merges instead of replacing):
   [JERoot] is an out-of-model marker, excluded by every theorem because
   they all start from a successful result. *)
Definition jset (p : path) (v : tv) (t : tv) : setres :=
  match p with
  | [] => SetErr JERoot
  | _ =>
      match jput p v t with
      | None => SetOk t 0                    (* zero nodes found, none updated *)
      | Some t1 =>
          if negb (settable v) then SetErr JEUnsupported
          else match codec_rt t1 with
               | None => SetErr JECodec      (* yaml.Unmarshal refuses the text *)
               | Some t2 => SetOk t2 1
               end
      end
  end.
