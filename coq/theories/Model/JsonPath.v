(* C18 — model of pkg/jsonpath (Get / Set) over abstract JSON trees.

   * the pure tree layer ([jget], [jput], [blank]) for the documented path
     subset `$.a.b[0]` = lists of [Key s | Idx n];
   * [jget_c] / [jset]: jsonpath.Get / jsonpath.Set: the tree layer plus
     Set's result shape (number of nodes updated, "unsupported value type").
   The text round trip encoding/json -> ajson -> yaml.v3 is NOT modelled: on
   the current code (escapeForYAML in jsonpath.go) it is the identity on
   every JSON-shaped object, which the correspondence validates (every BMP
   code point as value, sibling and key was probed).  Earlier revisions of
   this file carried a [codec_rt] for U+0085 / U+007F / C1 / U+FFFE / U+FFFF;
   those defects are fixed and their witnesses are corpus cases.
   The type is called [tv] so that it does not clash with Base/Json.v.
   No proofs in this file. *)
From Coq Require Import List Bool Arith ZArith String Ascii.
From CliUtils Require Import Base.StrReplace.
Import ListNotations.

Inductive tv :=
| TNull
| TBool (b : bool)
| TInt (z : Z)
| TFlt (m e : Z)            (* m * 2^e, m odd: only ever compared structurally *)
| TStr (s : string)
| TArr (l : list tv)
| TObj (kv : list (string * tv)).

Inductive seg := Key (k : string) | Idx (n : nat).
Definition path := list seg.

Definition seg_eqb (a b : seg) : bool :=
  match a, b with
  | Key x, Key y => String.eqb x y
  | Idx x, Idx y => Nat.eqb x y
  | _, _ => false
  end.

(* ---- objects as association lists (first binding wins) ------------------ *)
Fixpoint lookup (k : string) (kv : list (string * tv)) : option tv :=
  match kv with
  | [] => None
  | (k', x) :: r => if String.eqb k k' then Some x else lookup k r
  end.

Fixpoint update (k : string) (c : tv) (kv : list (string * tv)) : list (string * tv) :=
  match kv with
  | [] => []
  | (k', x) :: r => if String.eqb k k' then (k', c) :: r else (k', x) :: update k c r
  end.

Fixpoint list_set (n : nat) (c : tv) (l : list tv) : list tv :=
  match l, n with
  | [], _ => []
  | _ :: r, O => c :: r
  | x :: r, S n' => x :: list_set n' c r
  end.

(* one step of ajson's ApplyJSONPath for the typed subset: a key selects a
   member of an object, an index an element of an array; anything else
   selects nothing.  (ajson additionally lets numeric text index arrays,
   `[0]` address a member called "0", negative indexes count from the end and
   `.length` yield a synthetic node: outside the subset, see notes/C18.md.) *)
Definition child (s : seg) (t : tv) : option tv :=
  match s, t with
  | Key k, TObj kv => lookup k kv
  | Idx n, TArr l => nth_error l n
  | _, _ => None
  end.

Definition put_child (s : seg) (c : tv) (t : tv) : tv :=
  match s, t with
  | Key k, TObj kv => TObj (update k c kv)
  | Idx n, TArr l => TArr (list_set n c l)
  | _, _ => t
  end.

(* root.JSONPath(expr): the matching nodes (0 or 1 for this subset) *)
Fixpoint jget (p : path) (t : tv) : list tv :=
  match p with
  | [] => [t]
  | s :: p' => match child s t with
               | Some c => jget p' c
               | None => []
               end
  end.

(* node.Set...(value) on the matching node; None = no node matched *)
Fixpoint jput (p : path) (v : tv) (t : tv) : option tv :=
  match p with
  | [] => Some v
  | s :: p' => match child s t with
               | Some c => match jput p' v c with
                           | Some c' => Some (put_child s c' t)
                           | None => None
                           end
               | None => None
               end
  end.

(* the tree with the field at [p] overwritten by a fixed placeholder:
   two trees are "equal outside p" iff their blanked versions are equal *)
Definition blank (p : path) (t : tv) : option tv := jput p TNull t.

Fixpoint is_prefix (p q : path) : bool :=
  match p, q with
  | [], _ => true
  | a :: p', b :: q' => seg_eqb a b && is_prefix p' q'
  | _ :: _, [] => false
  end.
Definition prefix_related (p q : path) : bool := is_prefix p q || is_prefix q p.

(* ---- jsonpath.Get / jsonpath.Set ---------------------------------------- *)
Inductive jerr := JERoot | JEUnsupported.
Inductive getres := GetOk (vs : list tv) | GetErr.
Inductive setres := SetOk (t' : tv) (n : nat) | SetErr (e : jerr).

(* Get: the matching nodes, each marshalled and read back on its own.
   [GetErr] is kept for malformed expressions, which are outside [path]. *)
Definition jget_c (p : path) (t : tv) : getres := GetOk (jget p t).

Definition max_int64 : Z := 9223372036854775807.
(* Set's type switch: bool, string, int, float64, list, map, nil.  A Go value
   read by yaml.v3 is `int` up to 2^63-1 and `uint64` above, which falls into
   `default: unsupported value type`. *)
Definition settable (v : tv) : bool :=
  match v with
  | TInt z => Z.leb z max_int64
  | _ => true
  end.

(* Set.  The root path `$` is outside the modelled subset (the result is
   unmarshalled INTO the existing map, which merges instead of replacing):
   [JERoot] is an out-of-model marker, excluded by every theorem because
   they all start from a successful result or from a non-empty path. *)
Definition jset (p : path) (v : tv) (t : tv) : setres :=
  match p with
  | [] => SetErr JERoot
  | _ =>
      match jput p v t with
      | None => SetOk t 0                    (* zero nodes found, none updated *)
      | Some t1 => if settable v then SetOk t1 1 else SetErr JEUnsupported
      end
  end.
