(* Model of pkg/print/stats/stats.go (Stats.Handle and the per-type counters)
   and pkg/print/common/errors.go (ResultErrorFromStats), together with the
   part of pkg/apply/event the printers inspect.  No proofs in this file. *)
From Coq Require Import List Bool Arith.
Import ListNotations.

(* event.ResourceAction *)
Inductive action := AcApply | AcPrune | AcDelete | AcWait | AcInventory.
(* the three actuation event types share one status enumeration
   (Apply/Prune/DeleteEventStatus: Pending, Successful, Skipped, Failed) *)
Inductive akind := KApply | KPrune | KDelete.
Inductive astatus := StPending | StSuccessful | StSkipped | StFailed.
(* WaitEventStatus *)
Inductive wstatus := WPending | WSuccessful | WSkipped | WTimeout | WFailed.
(* kstatus of a StatusEvent *)
Inductive kstatus := KInProgress | KFailed | KCurrent | KTerminating | KNotFound | KUnknown.

(* event.Event restricted to what BaseListPrinter, Stats and the JSON
   formatter look at.  Identifiers and group names are indices into fixed
   universes. *)
Inductive event :=
| EInit (groups : list (nat * action))
| EError (nonnil : bool)                     (* ErrorEvent.Err != nil *)
| EGroup (name : nat) (a : action) (finished : bool)
| EAct (k : akind) (id : nat) (st : astatus) (has_err : bool)
    (* Apply / Prune / Delete event; has_err: the event's Error field is set
       (skipped events carry the skip reason there, failed ones the failure) *)
| EWait (id : nat) (st : wstatus)
| EStatus (id : nat) (st : kstatus)
| EValidation (ids : list nat).

(* ApplyStats / PruneStats / DeleteStats *)
Record tri := mkTri { t_succ : nat; t_skip : nat; t_fail : nat }.
(* WaitStats *)
Record quad := mkQuad { q_succ : nat; q_timeout : nat; q_fail : nat; q_skip : nat }.
Record stats := mkStats { s_apply : tri; s_prune : tri; s_delete : tri; s_wait : quad }.

Definition tri0 := mkTri 0 0 0.
Definition quad0 := mkQuad 0 0 0 0.
Definition stats0 := mkStats tri0 tri0 tri0 quad0.

(* (a *ApplyStats) Inc and its two siblings; None = panic("invalid ... status") *)
Definition tri_inc (t : tri) (st : astatus) : option tri :=
  match st with
  | StSuccessful => Some (mkTri (S (t_succ t)) (t_skip t) (t_fail t))
  | StSkipped => Some (mkTri (t_succ t) (S (t_skip t)) (t_fail t))
  | StFailed => Some (mkTri (t_succ t) (t_skip t) (S (t_fail t)))
  | StPending => None
  end.

(* (w *WaitStats) Inc: Pending is ignored *)
Definition quad_inc (q : quad) (st : wstatus) : quad :=
  match st with
  | WPending => q
  | WSuccessful => mkQuad (S (q_succ q)) (q_timeout q) (q_fail q) (q_skip q)
  | WSkipped => mkQuad (q_succ q) (q_timeout q) (q_fail q) (S (q_skip q))
  | WTimeout => mkQuad (q_succ q) (S (q_timeout q)) (q_fail q) (q_skip q)
  | WFailed => mkQuad (q_succ q) (q_timeout q) (S (q_fail q)) (q_skip q)
  end.

Definition tri_sum (t : tri) : nat := t_succ t + t_skip t + t_fail t.
Definition quad_sum (q : quad) : nat := q_succ q + q_skip q + q_fail q + q_timeout q.

(* Stats.Handle; None = panic *)
Definition handle (s : stats) (e : event) : option stats :=
  match e with
  | EAct KApply _ st _ =>     (* by Status only; the Error field is not looked at *)
      match tri_inc (s_apply s) st with
      | Some t => Some (mkStats t (s_prune s) (s_delete s) (s_wait s)) | None => None end
  | EAct KPrune _ st _ =>
      match tri_inc (s_prune s) st with
      | Some t => Some (mkStats (s_apply s) t (s_delete s) (s_wait s)) | None => None end
  | EAct KDelete _ st _ =>
      match tri_inc (s_delete s) st with
      | Some t => Some (mkStats (s_apply s) (s_prune s) t (s_wait s)) | None => None end
  | EWait _ st => Some (mkStats (s_apply s) (s_prune s) (s_delete s) (quad_inc (s_wait s) st))
  | _ => Some s
  end.

Definition failed_actuation_sum (s : stats) : nat :=
  t_fail (s_apply s) + t_fail (s_prune s) + t_fail (s_delete s).
Definition failed_reconciliation_sum (s : stats) : nat :=
  q_fail (s_wait s) + q_timeout (s_wait s).

(* ResultErrorFromStats: true = a *ResultError is returned *)
Definition result_error_from_stats (s : stats) : bool :=
  Nat.ltb 0 (failed_actuation_sum s) || Nat.ltb 0 (failed_reconciliation_sum s).
