(* Declarative description of when each built-in kind is Current / Failed /
   InProgress, over the extracted fields (absent -> documented default) and
   the converted condition list.  Written independently of the rule functions
   of Model/KStatus.v: no early-exit loops, no if-chains — existence of a
   condition, conjunctions of inequalities.  Boolean-valued so that the same
   definitions serve as the run-time monitor; Properties/C08.v gives the Prop
   readings.  No proofs in this file. *)
From Coq Require Import List Bool ZArith String.
From CliUtils Require Import Base.Json Model.KStatus.
Import ListNotations.
Local Open Scope string_scope.

Definition outcome_of (s : status) : outcome :=
  match s with
  | InProgress => new_in_progress
  | Failed => new_failed
  | Current => current
  | Terminating => terminating
  | _ => Err
  end.

Definition is_cond (ty st : string) (c : bcond) : bool := (c_type c =? ty) && (c_status c =? st).
Definition has_cond (cs : list bcond) (ty st : string) : bool := existsb (is_cond ty st) cs.

Definition is_kind (j : jv) (k : legacy) : Prop := legacy_of_key (kind_key j) = Some k.

(* ---- Deployment ---------------------------------------------------------- *)
Record dfields := mkD { d_spec : Z; d_status : Z; d_updated : Z; d_ready : Z; d_available : Z; d_deadline : Z }.
Definition deploy_fields (j : jv) : dfields :=
  mkD (get_int_field j ["spec"; "replicas"] 1)
      (get_int_field j ["status"; "replicas"] 0)
      (get_int_field j ["status"; "updatedReplicas"] 0)
      (get_int_field j ["status"; "readyReplicas"] 0)
      (get_int_field j ["status"; "availableReplicas"] 0)
      (get_int_field j ["spec"; "progressDeadlineSeconds"] max_int32).

(* some Progressing condition carries the reason ProgressDeadlineExceeded *)
Definition deadline_exceeded (cs : list bcond) : bool :=
  existsb (fun c => (c_type c =? "Progressing") && (c_reason c =? "ProgressDeadlineExceeded")) cs.
(* no deadline configured, or the new ReplicaSet reported available *)
Definition progressing_ok (f : dfields) (cs : list bcond) : bool :=
  (d_deadline f =? max_int32)%Z ||
  existsb (fun c => (c_type c =? "Progressing") && (c_status c =? "True") &&
                    (c_reason c =? "NewReplicaSetAvailable")) cs.
Definition deploy_complete (f : dfields) (cs : list bcond) : bool :=
  (d_spec f <=? d_status f)%Z && (d_spec f <=? d_updated f)%Z && (d_status f <=? d_spec f)%Z &&
  (d_updated f <=? d_available f)%Z && (d_spec f <=? d_ready f)%Z &&
  progressing_ok f cs && has_cond cs "Available" "True".
Definition deploy_expected (f : dfields) (cs : list bcond) : status :=
  if deadline_exceeded cs then Failed else if deploy_complete f cs then Current else InProgress.

(* ---- ReplicaSet ---------------------------------------------------------- *)
Record rfields := mkR { r_spec : Z; r_status : Z; r_labelled : Z; r_available : Z; r_ready : Z }.
Definition rs_fields (j : jv) : rfields :=
  mkR (get_int_field j ["spec"; "replicas"] 1)
      (get_int_field j ["status"; "replicas"] 0)
      (get_int_field j ["status"; "fullyLabeledReplicas"] 0)
      (get_int_field j ["status"; "availableReplicas"] 0)
      (get_int_field j ["status"; "readyReplicas"] 0).
Definition rs_complete (f : rfields) (cs : list bcond) : bool :=
  negb (has_cond cs "ReplicaFailure" "True") &&
  (r_spec f <=? r_labelled f)%Z && (r_spec f <=? r_available f)%Z && (r_spec f <=? r_ready f)%Z &&
  (r_status f <=? r_spec f)%Z.
Definition rs_expected (f : rfields) (cs : list bcond) : status :=
  if rs_complete f cs then Current else InProgress.

(* ---- StatefulSet --------------------------------------------------------- *)
Record sfields := mkS { s_strategy : string; s_spec : Z; s_status : Z; s_ready : Z; s_current : Z;
                        s_updated : Z; s_partition : Z; s_cur_rev : string; s_upd_rev : string }.
Definition sts_fields (j : jv) : sfields :=
  mkS (get_string_field j ["spec"; "updateStrategy"; "type"] "")
      (get_int_field j ["spec"; "replicas"] 1)
      (get_int_field j ["status"; "replicas"] 0)
      (get_int_field j ["status"; "readyReplicas"] 0)
      (get_int_field j ["status"; "currentReplicas"] 0)
      (get_int_field j ["status"; "updatedReplicas"] 0)
      (get_int_field j ["spec"; "updateStrategy"; "rollingUpdate"; "partition"] (-1))
      (get_string_field j ["status"; "currentRevision"] "")
      (get_string_field j ["status"; "updateRevision"] "").
(* partition = -1 stands for "no partition" *)
Definition sts_rolled_out (f : sfields) : bool :=
  (s_spec f <=? s_status f)%Z && (s_spec f <=? s_ready f)%Z && (s_status f <=? s_spec f)%Z &&
  (if (s_partition f =? -1)%Z
   then (s_spec f <=? s_current f)%Z && (s_cur_rev f =? s_upd_rev f)
   else (sub64 (s_spec f) (s_partition f) <=? s_updated f)%Z).
Definition sts_complete (f : sfields) : bool := (s_strategy f =? "OnDelete") || sts_rolled_out f.
Definition sts_expected (f : sfields) : status := if sts_complete f then Current else InProgress.

(* ---- DaemonSet ----------------------------------------------------------- *)
Record dsfields := mkDS { ds_desired : Z; ds_current : Z; ds_updated : Z; ds_available : Z; ds_ready : Z }.
Definition ds_fields (j : jv) : dsfields :=
  mkDS (get_int_field j ["status"; "desiredNumberScheduled"] (-1))
       (get_int_field j ["status"; "currentNumberScheduled"] 0)
       (get_int_field j ["status"; "updatedNumberScheduled"] 0)
       (get_int_field j ["status"; "numberAvailable"] 0)
       (get_int_field j ["status"; "numberReady"] 0).
Definition found_int (j : jv) (p : list string) : bool :=
  match nested_int64 j p with Found _ => true | _ => false end.
(* both generation fields must be present (the controller always sets them) *)
Definition ds_complete (j : jv) (f : dsfields) : bool :=
  found_int j p_generation && found_int j p_observed &&
  negb (ds_desired f =? -1)%Z &&
  (ds_desired f <=? ds_current f)%Z && (ds_desired f <=? ds_updated f)%Z &&
  (ds_desired f <=? ds_available f)%Z && (ds_desired f <=? ds_ready f)%Z.
Definition ds_expected (j : jv) (f : dsfields) : status := if ds_complete j f then Current else InProgress.

(* ---- Pod ----------------------------------------------------------------- *)
Definition pod_phase (j : jv) : string := get_string_field j ["status"; "phase"] "".
(* status.containerStatuses: Some true = a list with a crash-looping container,
   Some false = absent or a list without one, None = present but not a list *)
Definition pod_crash_looping (j : jv) : option bool :=
  match nested_slice j ["status"; "containerStatuses"] with
  | AErr => None
  | Absent => Some false
  | Found items => Some (existsb item_crash_looping items)
  end.
(* the first PodScheduled=False condition says Unschedulable *)
Definition pod_unschedulable (cs : list bcond) : bool :=
  match find (is_cond "PodScheduled" "False") cs with
  | Some c => c_reason c =? "Unschedulable"
  | None => false
  end.
(* None = Compute returns an error *)
Definition pod_expected (j : jv) (cs : list bcond) (w : bool) : option status :=
  let ph := pod_phase j in
  if (ph =? "Succeeded") || (ph =? "Failed") then Some Current
  else if ph =? "Running" then
    if has_cond cs "Ready" "True" then Some Current
    else match pod_crash_looping j with
         | None => None
         | Some true => Some Failed
         | Some false => Some InProgress
         end
  else if ph =? "Pending" then
    if pod_unschedulable cs && negb w then Some Failed else Some InProgress
  else if ph =? "" then Some InProgress
  else None.

(* ---- Job ----------------------------------------------------------------- *)
Definition job_decisive (c : bcond) : bool := is_cond "Complete" "True" c || is_cond "Failed" "True" c.
Definition job_expected (j : jv) (cs : list bcond) : status :=
  match find job_decisive cs with
  | Some c => if c_type c =? "Complete" then Current else Failed
  | None => if get_string_field j ["status"; "startTime"] "" =? "" then InProgress else Current
  end.

(* ---- PVC / Service ------------------------------------------------------- *)
Definition pvc_expected (j : jv) : status :=
  if get_string_field j ["status"; "phase"] "unknown" =? "Bound" then Current else InProgress.
Definition service_expected (j : jv) : status :=
  if (get_string_field j ["spec"; "type"] "ClusterIP" =? "LoadBalancer") &&
     (get_string_field j ["spec"; "clusterIP"] "" =? "")
  then InProgress else Current.

(* ---- CRD ----------------------------------------------------------------- *)
Definition crd_rejected (c : bcond) : bool :=
  is_cond "NamesAccepted" "False" c ||
  (is_cond "Established" "False" c && negb (c_reason c =? "Installing")).
Definition crd_decisive (c : bcond) : bool := crd_rejected c || is_cond "Established" "True" c.
Definition crd_expected (cs : list bcond) : status :=
  match find crd_decisive cs with
  | Some c => if crd_rejected c then Failed else Current
  | None => InProgress
  end.
