(* Model of pkg/kstatus/polling/engine/engine.go (statusPollerRunner) and of
   event.ResourceStatusEqual (pkg/kstatus/polling/event/event.go).
   No proofs in this file. *)
From Coq Require Import List Bool Arith ZArith String.
Import ListNotations.

(* status.Status: the six constants of pkg/kstatus/status *)
Inductive status := InProgress | Failed | Current | Terminating | NotFound | Unknown.

Definition status_eqb (a b : status) : bool :=
  match a, b with
  | InProgress, InProgress | Failed, Failed | Current, Current
  | Terminating, Terminating | NotFound, NotFound | Unknown, Unknown => true
  | _, _ => false
  end.

(* event.ResourceStatus, restricted to what ResourceStatusEqual inspects.
   rid: Identifier (index into a fixed universe); gen: None when the
   Resource pointer is nil, otherwise Resource.GetGeneration(); err: None when
   Error is nil, otherwise Error.Error(); kids: GeneratedResources. *)
Inductive rstatus :=
| RS (rid : nat) (st : status) (msg : string) (gen : option Z) (err : option string)
     (kids : list rstatus).

Definition rs_id (r : rstatus) : nat := match r with RS i _ _ _ _ _ => i end.
Definition rs_status (r : rstatus) : status := match r with RS _ s _ _ _ _ => s end.
Definition rs_msg (r : rstatus) : string := match r with RS _ _ m _ _ _ => m end.
Definition rs_gen (r : rstatus) : option Z := match r with RS _ _ _ g _ _ => g end.
Definition rs_err (r : rstatus) : option string := match r with RS _ _ _ _ e _ => e end.
Definition rs_kids (r : rstatus) : list rstatus := match r with RS _ _ _ _ _ l => l end.

(* getGeneration: 0 when Resource == nil *)
Definition gen_of (g : option Z) : Z := match g with None => 0%Z | Some z => z end.
Definition get_generation (r : rstatus) : Z := gen_of (rs_gen r).

(* the two error clauses of ResourceStatusEqual: both non-nil with different
   texts -> differ; exactly one nil -> differ *)
Definition err_equal (a b : option string) : bool :=
  match a, b with
  | Some x, Some y => String.eqb x y
  | None, None => true
  | _, _ => false
  end.

(* ResourceStatusEqual, clause by clause in the order of the Go code *)
Fixpoint rs_equal (a b : rstatus) {struct a} : bool :=
  match a, b with
  | RS i s m g e l, RS i' s' m' g' e' l' =>
      Nat.eqb i i' && status_eqb s s' && String.eqb m m'
      && Z.eqb (gen_of g) (gen_of g')
      && err_equal e e'
      && (fix go (l l' : list rstatus) {struct l} : bool :=
            match l, l' with
            | [], [] => true
            | x :: t, y :: t' => rs_equal x y && go t t'
            | _, _ => false           (* len(or1.Gen) != len(or2.Gen) *)
            end) l l'
  end.

Fixpoint all2 {A} (f : A -> A -> bool) (l l' : list A) : bool :=
  match l, l' with
  | [], [] => true
  | x :: t, y :: t' => f x y && all2 f t t'
  | _, _ => false
  end.

(* errors as the engine classifies them (handleSyncAndPollErr): the two
   context errors are swallowed, everything else is reported *)
Inductive err := ECanceled | EDeadline | EOther (code : nat).
Definition is_ctx_err (e : err) : bool :=
  match e with ECanceled | EDeadline => true | EOther _ => false end.

(* what StatusReader.ReadStatus returns: (rs, nil) or (nil, err) *)
Inductive reading := RStatus (r : rstatus) | RErr (e : err).

(* one polling round as seen by the runner.
   p_sync   : error returned by ClusterReader.Sync (None = nil)
   p_cancel : Some c = the context is done from loop iteration c on
              (c = 0: already when the loop starts; c >= number of ids: it is
              noticed only after the round, in the select of Run)
   p_read   : result of ReadStatus for an identifier in this round *)
Record poll := mkPoll { p_sync : option err; p_cancel : option nat; p_read : nat -> reading }.

(* what is observed on the event channel *)
Inductive item := Upd (r : rstatus) | Err (e : err) | Close.

(* previousResourceStatuses: newest binding first, first match wins *)
Definition pmap := list (nat * rstatus).
Fixpoint pm_get (m : pmap) (i : nat) : option rstatus :=
  match m with
  | [] => None
  | (k, r) :: t => if Nat.eqb k i then Some r else pm_get t i
  end.
Definition pm_set (m : pmap) (i : nat) (r : rstatus) : pmap := (i, r) :: m.

(* isUpdatedResourceStatus: looked up under the Identifier of the returned
   status (not under the loop variable) *)
Definition is_updated (m : pmap) (r : rstatus) : bool :=
  match pm_get m (rs_id r) with
  | None => true
  | Some old => negb (rs_equal r old)
  end.

Inductive outcome := Continue | StopQuiet | StopErr (e : err).

Definition ctx_done (p : poll) (k : nat) : bool :=
  match p_cancel p with Some c => Nat.leb c k | None => false end.

(* pollStatusForAllResources: k is the index of the loop iteration *)
Fixpoint poll_ids (p : poll) (k : nat) (ids : list nat) (prev : pmap)
  : pmap * list item * outcome :=
  match ids with
  | [] => (prev, [], Continue)
  | i :: rest =>
      if ctx_done p k then (prev, [], StopQuiet)        (* return ctx.Err() *)
      else match p_read p i with
           | RErr e => (prev, [], if is_ctx_err e then StopQuiet else StopErr e)
           | RStatus r =>
               if is_updated prev r then
                 let '(prev', evs, out) := poll_ids p (S k) rest (pm_set prev i r) in
                 (prev', Upd r :: evs, out)
               else poll_ids p (S k) rest prev
           end
  end.

(* syncAndPoll + handleSyncAndPollErr *)
Definition poll_step (ids : list nat) (prev : pmap) (p : poll) : pmap * list item * outcome :=
  match p_sync p with
  | Some e => (prev, [], if is_ctx_err e then StopQuiet else StopErr e)
  | None => poll_ids p 0 ids prev
  end.

(* Run: first round immediately, then one round per tick until the context is
   done.  The script ending stands for cancellation between two rounds. *)
Fixpoint run_polls (ids : list nat) (prev : pmap) (polls : list poll) : list item :=
  match polls with
  | [] => [Close]
  | p :: rest =>
      let '(prev', evs, out) := poll_step ids prev p in
      match out with
      | Continue =>
          match p_cancel p with
          | Some _ => evs ++ [Close]         (* case <-ctx.Done() *)
          | None => evs ++ run_polls ids prev' rest
          end
      | StopQuiet => evs ++ [Close]
      | StopErr e => evs ++ [Err e; Close]
      end
  end.

(* Poll: validateIdentifiers / ClusterReaderFactory.New failing is reported
   with handleError (no filtering of context errors there) *)
Record scenario := mkSc { s_ids : list nat; s_pre : option err; s_polls : list poll }.

Definition run (sc : scenario) : list item :=
  match s_pre sc with
  | Some e => [Err e; Close]
  | None => run_polls (s_ids sc) [] (s_polls sc)
  end.

(* ---- vocabulary for the property statements --------------------------- *)
Definition upd_for (j : nat) (it : item) : bool :=
  match it with Upd r => Nat.eqb (rs_id r) j | _ => false end.

Definition last_emitted (tr : list item) (j : nat) : option rstatus :=
  fold_left (fun acc it => if upd_for j it then match it with Upd r => Some r | _ => acc end else acc)
            tr None.

Definition changed (old : option rstatus) (r : rstatus) : bool :=
  match old with None => true | Some o => negb (rs_equal r o) end.

(* canonical form: what ResourceStatusEqual can see *)
Fixpoint canon (r : rstatus) : rstatus :=
  match r with
  | RS i s m g e l => RS i s m (Some (gen_of g)) e (map canon l)
  end.
