(* Types shared by the pipeline model (Model/Pipeline.v), its monitors and the
   correspondence harness (harness/pipeline): scenarios in, traces out.
   Identifiers are natural numbers: index into the scenario's universe, numbered
   by the harness in ordering.less order (so `<` on nat is the documented
   kind-then-namespace-then-name order).  No proofs here. *)
From Coq Require Import List Bool Arith NArith ZArith.
Import ListNotations.

Definition id := nat.

(* ---- universe: static facts about each identifier ----------------------- *)
(* KApiSvc: an apiregistration.k8s.io APIService (cluster-scoped, a built-in kind: no CRD, no namespace
   object).  The only kind ApplyTask treats specially: when server-side apply is requested and the apply
   PATCH dies with an HTTP/2 stream error, the task applies the object client-side instead. *)
Inductive kindc := KNs | KCrd | KPlain | KApiSvc.
Record uinfo := mkUF {
  u_kind : kindc;
  u_nsobj : option id;   (* id of the Namespace object named like this object's namespace, if in the universe *)
  u_crd : option id;     (* id of the CRD object defining this object's kind, if in the universe *)
  u_fin : bool;          (* every incarnation of this object carries a finalizer that nobody removes
                            during the run: an accepted DELETE marks it terminating, the object stays *)
  u_gcur : bool;         (* kstatus computes Current for the object as a GET returns it during this run
                            (ApplyTimeMutator.computeStatus): false for a kind whose bare manifest is not
                            Current (Deployment, CustomResourceDefinition: the manifests carry no status)
                            and while the object is terminating *)
}.
Definition mkU (k : kindc) (n c : option id) : uinfo := mkUF k n c false true.

(* ---- local (manifest) objects of an apply run --------------------------- *)
Record lobj := mkLM {
  l_id : id;
  l_deps : list id;      (* dependency references of the manifest, in annotation order: depends-on targets, or
                            (l_mut) the source objects of its apply-time-mutation substitutions *)
  l_baddep : bool;       (* the dependency annotation is present but malformed *)
  l_finv : bool;         (* fails field validation (namespace on a cluster-scoped kind / missing on a namespaced one) *)
  l_keep : bool;         (* manifest carries a deletion-prevention annotation *)
  l_ver : nat;           (* content version of the manifest *)
  l_mut : bool;          (* the references are spelled as config.kubernetes.io/apply-time-mutation substitutions:
                            besides being dependencies, every source is LOOKED UP by the apply task right before
                            kubectl apply (resource cache, else a GET); the substitution itself is not modelled *)
}.
(* a manifest whose references (if any) are depends-on references *)
Definition mkL (i : id) (deps : list id) (bad finv keep : bool) (ver : nat) : lobj := mkLM i deps bad finv keep ver false.

(* ---- cluster ------------------------------------------------------------ *)
Inductive owner := ONone | OOurs | OOther.
(* content of the last-applied-configuration annotation, on the modelled attributes *)
Record lastcfg := mkLA {
  la_owner : owner;
  la_keep : bool;
  la_deps : list id;
  la_baddep : bool;
  la_ver : nat;
}.
Record cobj := mkC {
  c_id : id;
  c_uid : N;
  c_owner : owner;       (* owning-inventory annotation: absent / this inventory / another one *)
  c_keep : bool;         (* deletion-prevention annotation on the live object *)
  c_deps : list id;      (* live depends-on annotation *)
  c_baddep : bool;
  c_ver : nat;
  c_last : option lastcfg; (* last-applied-configuration annotation (None: object never applied client-side) *)
}.
Record cluster := mkCl {
  objs : list cobj;
  inv : option (list id);   (* stored inventory: None = the inventory object does not exist *)
  next_uid : N;
}.

(* ---- options ------------------------------------------------------------ *)
Inductive policy := PMustMatch | PAdoptIfNoInventory | PAdoptAll.
Inductive dry := DNone | DClient | DServer.
Inductive valpol := VExitEarly | VSkipInvalid.
Inductive prop := PropBackground | PropForeground | PropOrphan.
Record opts := mkO {
  o_destroy : bool;
  o_prune : bool;           (* apply runs: NoPrune = false here; destroy: always true *)
  o_policy : policy;
  o_dry : dry;
  o_valpol : valpol;
  o_ssa : bool;             (* ServerSideOptions.ServerSideApply *)
  o_rec_timeout : bool;     (* ReconcileTimeout > 0 (short) *)
  o_prune_timeout : bool;   (* PruneTimeout / DeleteTimeout > 0 (short) *)
  o_status_events : bool;   (* EmitStatusEvents *)
  o_prop : prop;
  o_status_policy_all : bool; (* inventory StatusPolicyAll: the inventory is always rewritten *)
}.

(* ---- environment: faults, status deliveries, cancellation --------------- *)
(* request classes that can be rejected; counters are per run, from 0 *)
Inductive faddr :=
| FInvList (n : nat)        (* n-th LIST of inventory objects by label *)
| FInvGet (n : nat)         (* n-th GET of the inventory object by name (ConfigMap.Apply) *)
| FInvWrite (n : nat)       (* n-th create/update of the inventory object *)
| FInvDelete
| FNsCreate
| FGet (i : id) (n : nat)   (* n-th GET of object i *)
| FApply (i : id)           (* the POST/PATCH of the apply path for i *)
| FStream (i : id) (n : nat)(* the n-th server-side-apply PATCH of i is answered with an HTTP/2 stream error
                               ("stream error: stream ID ..."); takes precedence over FApply i *)
| FUpdate (i : id)          (* annotation-removal update *)
| FDelete (i : id).

Inductive kst := SInProgress | SFailed | SCurrent | STerminating | SNotFound | SUnknown.
Record sobs := mkS {        (* one status delivery *)
  s_id : id;
  s_st : kst;
  s_body : bool;            (* resource body present *)
  s_uid : N;                (* 0 = empty *)
  s_gen : Z;
}.
(* how a wait phase ends when deliveries are exhausted and objects are still pending *)
Inductive wend := WTimeout | WCancel.
Record wsched := mkW { w_deliv : list sobs; w_end : wend }.

Inductive cancelpt :=
| CNever
| CBeforeSync                 (* context already cancelled when the run starts *)
| CDuringReq (i : id).        (* cancelled while the apply/delete request of i is being served *)

Record env := mkE {
  e_faults : list faddr;
  e_waits : list wsched;      (* k-th entry drives wait-k; missing entries = no deliveries, WTimeout *)
  e_cancel : cancelpt;
  e_watch_err_at : option nat;(* the watcher reports a fatal error instead of delivering in wait-k *)
}.

Record scenario := mkSc {
  sc_univ : list uinfo;
  sc_inv_ns : option id;      (* Namespace object id of the inventory's namespace, if in the universe *)
  sc_local : list lobj;       (* apply runs; [] for destroy *)
  sc_opts : opts;
  sc_env : env;
}.

(* ---- trace -------------------------------------------------------------- *)
Inductive gk := GInvAdd | GApply | GWait | GPrune | GInvSet.
Definition gname := (gk * nat)%type.      (* apply-0, wait-1, prune-0, inventory-add-0, inventory-set-0 *)

Inductive req :=
| RNsCreate (i : id)
| RInvCreate (l : list id)                (* keys written, sorted *)
| RInvUpdate (l : list id)
| RInvDelete
| RCreate (i : id) (dryflag : bool)
| RPatch (i : id) (ssa : bool) (dryflag : bool)
| RUpdate (i : id)
| RDelete (i : id) (pre : N) (p : prop).

Inductive ast := AOk | ASkip | AFail.                    (* apply / prune / delete result events *)
Inductive wst := WPending | WOk | WSkipped | WFailed | WTimedOut.
Inductive evt :=
| EValidation (ids : list id)             (* sorted ids named by one validation error event *)
| EInit (groups : list (gname * list id)) (* the plan; ids in task order *)
| EStarted (g : gname)
| EFinished (g : gname)
| EApply (g : gname) (i : id) (s : ast)
| EPrune (g : gname) (i : id) (s : ast)   (* PruneType in apply runs, DeleteType in destroy runs *)
| EWait (g : gname) (i : id) (s : wst)
| EStatus (i : id) (s : kst)
| EError.

Inductive item :=
| IReq (r : req) (ok : bool) (managed : list id) (stored : option (list id))
      (* a mutating request reached the server; ok = accepted; then the snapshot taken right after it:
         live objects annotated as owned by this inventory (sorted), stored inventory keys (sorted) *)
| IDeliv (o : sobs)                       (* a status delivery was handed to the runner *)
| IEv (e : evt)
| IClosed.                                (* event channel closed *)

Record outcome := mkOut {
  out_trace : list item;
  out_final : cluster;                    (* objs sorted by id; inv sorted *)
}.
