(* Executable model of the status READERS that wrap status.Compute:
   sigs.k8s.io/cli-utils/pkg/kstatus/polling/statusreaders
   (default.go, common.go, generic.go, deployment.go, replicaset.go,
   statefulset.go, pod_controller.go), transcribed from the Go code as it is
   in /repo, on top of Model/KStatus.v (`compute`).

   What a reader returns is an *event.ResourceStatus (Identifier, Status,
   Error, Message, GeneratedResources) or (nil, err) for a context error.
   There is no panic constructor: the only pointer the readers dereference
   is the *status.Result of status.Compute, and every reader returns through
   errResourceToResourceStatus before touching it when Compute's error is
   non-nil (deployment.go:62, generic.go:56, pod_controller.go:55).

   Inputs the model does not compute (the harness supplies them, the real
   code obtains them from apimachinery / the cluster):
     sel    toSelector succeeded on spec.selector (NestedMap found a map, the
            JSON round trip into metav1.LabelSelector and
            LabelSelectorAsSelector accepted it)
     lst    what mapper.RESTMapping + ClusterReader.ListNamespaceScoped did:
            no error / an ordinary error / an IsNotFound error / a context
            error (Canceled, DeadlineExceeded)
     kids   the objects the list call returned (the selection by namespace
            and labels), in the order of event.ResourceStatuses.Less, which
            the real code establishes with sort.Sort
   No proofs in this file. *)
From Coq Require Import List Bool Arith ZArith String.
From CliUtils Require Import Base.Json Model.KStatus.
Import ListNotations.
Local Open Scope string_scope.

Definition status_eqb (a b : status) : bool :=
  match a, b with
  | InProgress, InProgress | Failed, Failed | Current, Current
  | Terminating, Terminating | NotFound, NotFound | Unknown, Unknown => true
  | _, _ => false
  end.

(* ResourceStatus.Message, by origin *)
Inductive rmsg :=
| MsgCompute                  (* res.Message of status.Compute *)
| MsgPodsFailed (n : nat)     (* fmt.Sprintf("%d pods have failed", n) *)
| MsgNotFound                 (* "Resource not found" *)
| MsgEmpty.                   (* no message: the Error field is set *)

(* object.ObjMetadata: namespace, group, kind, name *)
Definition rid := (string * string * string * string)%type.

(* object.UnstructuredToObjMetadata: GetNamespace / GetName are
   getNestedString, GroupKind comes from GroupVersionKind() *)
Definition id_of (j : jv) : rid :=
  (get_nested_string j ["metadata"; "namespace"], fst (group_kind j), snd (group_kind j),
   get_nested_string j ["metadata"; "name"]).

(* *event.ResourceStatus: Identifier, Status, Error != nil, Message, GeneratedResources *)
Inductive rres := RRes (id : rid) (s : status) (err : bool) (msg : rmsg) (gen : list rres).

Definition rr_id (r : rres) : rid := match r with RRes i _ _ _ _ => i end.
Definition rr_status (r : rres) : status := match r with RRes _ s _ _ _ => s end.
Definition rr_error (r : rres) : bool := match r with RRes _ _ e _ _ => e end.
Definition rr_msg (r : rres) : rmsg := match r with RRes _ _ _ m _ => m end.
Definition rr_gen (r : rres) : list rres := match r with RRes _ _ _ _ g => g end.

(* an error value by the three classes the readers distinguish *)
Inductive lerr :=
| LOk          (* nil *)
| LErr         (* any other error *)
| LNotFound    (* apierrors.IsNotFound *)
| LCtx.        (* context.Canceled / context.DeadlineExceeded *)

(* common.go errResourceToResourceStatus(err, resource, genResources...) for a
   non-nil err; None = (nil, err).  The NotFound branch drops the generated
   resources, the last branch keeps them. *)
Definition err_resource (e : lerr) (id : rid) (gen : list rres) : option rres :=
  match e with
  | LCtx => None
  | LNotFound => Some (RRes id NotFound false MsgNotFound [])
  | _ => Some (RRes id Unknown true MsgEmpty gen)
  end.

(* common.go errIdentifierToResourceStatus *)
Definition err_identifier (e : lerr) (id : rid) : option rres :=
  match e with
  | LCtx => None
  | LNotFound => Some (RRes id NotFound false MsgNotFound [])
  | _ => Some (RRes id Unknown true MsgEmpty [])
  end.

(* ---- the rule of the task statement, on statuses only -------------------- *)
Definition count_failed (pods : list status) : nat :=
  List.length (filter (status_eqb Failed) pods).

(* status reported by the pod-controller reader (ReplicaSet, StatefulSet) for
   what Compute said about the controller and the statuses of its pods *)
Definition reader_status (computed : outcome) (pods : list status) : status :=
  match computed with
  | Err => Unknown
  | Ok s _ => if status_eqb s InProgress && Nat.ltb 0 (count_failed pods) then Failed else s
  end.

(* ---- generic.go genericStatusReader.ReadStatusForObject, and the tail of
   deployment.go ReadStatusForObject (same shape, plus generated resources) -- *)
Definition plain_result (id : rid) (computed : outcome) (gen : list rres) : rres :=
  match computed with
  | Err => RRes id Unknown true MsgEmpty gen            (* errResourceToResourceStatus(err, obj, gen...) *)
  | Ok s _ => RRes id s false MsgCompute gen
  end.

(* ---- pod_controller.go readStatus after the generated resources are known -- *)
Definition is_failed (r : rres) : bool := status_eqb (rr_status r) Failed.

Definition pod_controller_result (id : rid) (computed : outcome) (pods : list rres) : rres :=
  match computed with
  | Err => RRes id Unknown true MsgEmpty pods
  | Ok s _ =>
      if status_eqb s InProgress then
        let failed := filter is_failed pods in
        if Nat.ltb 0 (List.length failed) then RRes id Failed false (MsgPodsFailed (List.length failed)) pods
        else RRes id s false MsgCompute pods
      else RRes id s false MsgCompute pods
  end.

(* ---- common.go statusForGeneratedResources ------------------------------- *)
Fixpoint all_some {A} (l : list (option A)) : option (list A) :=
  match l with
  | [] => Some []
  | None :: _ => None
  | Some x :: t => match all_some t with Some t' => Some (x :: t') | None => None end
  end.

Inductive gen_out :=
| GenOk (l : list rres)
| GenErr (e : lerr).

(* kids: what the reader of the generated kind returned for every listed
   object; a (nil, err) there (a context error) aborts the loop with err *)
Definition gen_resources (sel : bool) (lst : lerr) (kids : list (option rres)) : gen_out :=
  if negb sel then GenErr LErr                      (* toSelector failed *)
  else
    match lst with
    | LOk => match all_some kids with Some l => GenOk l | None => GenErr LCtx end
    | e => GenErr e                                 (* gvk(...) or ListNamespaceScoped failed *)
    end.

(* ---- the readers ----------------------------------------------------------- *)
Inductive rkind := RDeployment | RPodCtl | RGeneric.

(* default.go: the first reader whose Supports accepts the GroupKind *)
Definition reader_of_gk (g k : string) : rkind :=
  if (g =? "apps") && (k =? "Deployment") then RDeployment
  else if (g =? "apps") && (k =? "StatefulSet") then RPodCtl
  else if (g =? "apps") && (k =? "ReplicaSet") then RPodCtl
  else RGeneric.
Definition reader_of (j : jv) : rkind := reader_of_gk (fst (group_kind j)) (snd (group_kind j)).

(* the reader handed to statusForGeneratedResources (default.go NewStatusReader):
   Deployment -> ReplicaSet reader, ReplicaSet / StatefulSet -> generic reader *)
Definition child_kind (k : rkind) : rkind :=
  match k with RDeployment => RPodCtl | _ => RGeneric end.

(* one object as a reader sees it, with the objects its list call returns *)
Inductive node := Node (obj : jv) (w : bool) (sel : bool) (lst : lerr) (kids : list node).

Definition node_obj (n : node) : jv := match n with Node j _ _ _ _ => j end.
Definition node_w (n : node) : bool := match n with Node _ w _ _ _ => w end.

(* ReadStatusForObject of the reader kind k; None = (nil, context error) *)
Fixpoint read (k : rkind) (n : node) : option rres :=
  match n with
  | Node j w sel lst kids =>
      match k with
      | RGeneric => Some (plain_result (id_of j) (compute j w) [])
      | RPodCtl =>
          match gen_resources sel lst (map (read RGeneric) kids) with
          | GenErr e => err_resource e (id_of j) []
          | GenOk pods => Some (pod_controller_result (id_of j) (compute j w) pods)
          end
      | RDeployment =>
          match gen_resources sel lst (map (read RPodCtl) kids) with
          | GenErr e => err_resource e (id_of j) []
          | GenOk rss => Some (plain_result (id_of j) (compute j w) rss)
          end
      end
  end.

(* default.go DelegatingStatusReader.ReadStatusForObject *)
Definition read_top (n : node) : option rres := read (reader_of (node_obj n)) n.

(* common.go baseStatusReader.ReadStatus: lookupResource (RESTMapping + Get,
   outcome lk) and then the same reader on the object found; r is what that
   reader returns for it *)
Definition by_id (lk : lerr) (id : rid) (r : option rres) : option rres :=
  match lk with
  | LOk => r
  | e => err_identifier e id
  end.
Definition read_by_id (lk : lerr) (id : rid) (n : node) : option rres := by_id lk id (read_top n).

(* ---- vocabulary of the theorems -------------------------------------------- *)
(* a context error is scripted somewhere below (or at) this node *)
Fixpoint ctx_in (n : node) : bool :=
  match n with
  | Node _ _ _ lst kids =>
      (match lst with LCtx => true | _ => false end) || existsb ctx_in kids
  end.

(* the Error field is set exactly on Unknown, at every level *)
Fixpoint wf_rres (r : rres) : bool :=
  match r with
  | RRes _ s e _ gen => Bool.eqb e (status_eqb s Unknown) && forallb wf_rres gen
  end.
