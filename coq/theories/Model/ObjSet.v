(* Model of pkg/object/objmetadata_set.go (ObjMetadataSet): order-faithful
   transcription of every operation on `list A`.  No proofs in this file. *)
From Coq Require Import List Bool Arith NArith String Ascii.
Import ListNotations.

Section ObjSet.
  Variable A : Type.
  Variable eqb : A -> A -> bool.

  Definition mem (x : A) (l : list A) : bool := existsb (eqb x) l.

  (* keep the first occurrence of every element, in input order: what the Go
     code obtains by iterating the input while deleting from a map *)
  Fixpoint dedup (l : list A) : list A :=
    match l with
    | [] => []
    | x :: t => x :: filter (fun y => negb (eqb x y)) (dedup t)
    end.

  (* ObjMetadataSet.Contains *)
  Definition contains (a : list A) (x : A) : bool := mem x a.

  (* ObjMetadataSet.Union: iterate A then B, appending ids still in the map *)
  Definition union (a b : list A) : list A := dedup (a ++ b).

  (* ObjMetadataSet.Intersection: mapI = members of A that are in B; iterate A
     (then B, which finds nothing left) *)
  Definition intersection (a b : list A) : list A :=
    dedup (filter (fun x => mem x b) a).

  (* ObjMetadataSet.Diff *)
  Definition diff (a b : list A) : list A :=
    dedup (filter (fun x => negb (mem x b)) a).

  (* ObjMetadataSet.Equal: same number of distinct elements, every element of
     B in A *)
  Definition equal (a b : list A) : bool :=
    Nat.eqb (List.length (dedup a)) (List.length (dedup b)) && forallb (fun x => mem x a) b.

  (* ObjMetadataSet.Unique: order unspecified in Go (map iteration); the model
     fixes first-seen order and the correspondence compares as sets+length *)
  Definition unique (a : list A) : list A := dedup a.

  (* ObjMetadataSet.Remove: swap the first match with the last element and
     truncate; returns the input unchanged when absent *)
  Fixpoint remove (l : list A) (x : A) : list A :=
    match l with
    | [] => []
    | a :: t =>
        if eqb a x then
          match t with
          | [] => []
          | _ :: _ => last t a :: removelast t
          end
        else a :: remove t x
    end.

  (* ToMap / FromMap round trip, as a set *)
  Definition to_map (a : list A) : list A := dedup a.
End ObjSet.

Arguments mem {A} eqb x l.
Arguments dedup {A} eqb l.
Arguments contains {A} eqb a x.
Arguments union {A} eqb a b.
Arguments intersection {A} eqb a b.
Arguments diff {A} eqb a b.
Arguments equal {A} eqb a b.
Arguments unique {A} eqb a.
Arguments remove {A} eqb l x.

(* ---- Hash: strings sorted bytewise, concatenated, FNV-1a 32 ------------- *)

Local Open Scope N_scope.

Definition fnv_offset : N := 2166136261.
Definition fnv_prime  : N := 16777619.
Definition two32 : N := 4294967296.

Definition fnv1a_byte (h : N) (c : ascii) : N :=
  (N.lxor h (N_of_ascii c) * fnv_prime) mod two32.

Fixpoint fnv1a_str (h : N) (s : string) : N :=
  match s with
  | EmptyString => h
  | String c t => fnv1a_str (fnv1a_byte h c) t
  end.

Definition fnv1a_strs (l : list string) : N := fold_left fnv1a_str l fnv_offset.

(* insertion sort on strings with Go's `<` (bytewise lexicographic) *)
Fixpoint ins_str (s : string) (l : list string) : list string :=
  match l with
  | [] => [s]
  | h :: t => if String.leb s h then s :: l else h :: ins_str s t
  end.
Definition sort_strs (l : list string) : list string := fold_right ins_str [] l.

(* ObjMetadataSet.Hash (after the fix: duplicates of an id are ignored):
   strings of the distinct ids, sorted, hashed in order. *)
Definition hash {A} (eqb : A -> A -> bool) (str : A -> string) (a : list A) : N :=
  fnv1a_strs (sort_strs (map str (dedup eqb a))).

(* the pre-fix behaviour, kept for the refutation lemma: duplicates hashed *)
Definition hash_nodedup {A} (str : A -> string) (a : list A) : N :=
  fnv1a_strs (sort_strs (map str a)).
