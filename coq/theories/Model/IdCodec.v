(* Model of the inventory identifier codec:
     pkg/object/objmetadata.go      ObjMetadata.String, ParseObjMetadata, RBACGroupKind
     pkg/object/objmetadata_set.go  ToStringMap, FromStringMap
     pkg/inventory/inventorycm.go   ConfigMap.Store, GetObject, Load, buildObjMap
   as they are after the fix "ConfigMap inventory rejects identifiers that would
   not read back".  No proofs here. *)
From Coq Require Import List Bool Arith String Ascii.
From CliUtils Require Import Base.Strings.
Import ListNotations.
Local Open Scope string_scope.

(* object.ObjMetadata{Namespace, Name, GroupKind{Group, Kind}} *)
Record oid := mkOid { o_ns : string; o_name : string; o_grp : string; o_knd : string }.

(* Go struct equality *)
Definition oid_eqb (a b : oid) : bool :=
  String.eqb (o_ns a) (o_ns b) && String.eqb (o_name a) (o_name b)
  && String.eqb (o_grp a) (o_grp b) && String.eqb (o_knd a) (o_knd b).

Inductive result (A : Type) : Type := Ok (a : A) | Err.
Arguments Ok {A} a.
Arguments Err {A}.

Definition field_separator := "_".
Definition colon_transcoded := "__".
Definition rbac_group := "rbac.authorization.k8s.io".

(* RBACGroupKind *)
Definition is_rbac (g k : string) : bool :=
  String.eqb g rbac_group &&
  (String.eqb k "Role" || String.eqb k "ClusterRole" || String.eqb k "RoleBinding"
   || String.eqb k "ClusterRoleBinding").

(* ObjMetadata.String *)
Definition stored_name (i : oid) : string :=
  if is_rbac (o_grp i) (o_knd i) then replace_all ":" colon_transcoded (o_name i) else o_name i.

Definition string_of_id (i : oid) : string :=
  o_ns i ++ field_separator ++ stored_name i ++ field_separator ++ o_grp i ++ field_separator ++ o_knd i.

(* ParseObjMetadata: namespace up to the first separator, kind after the
   last, group after the last of what remains, the rest is the name with
   "__" decoded to ":" (for every kind); a name still containing the
   separator is an error *)
Definition parse_id (s : string) : result oid :=
  match index field_separator s with
  | None => Err
  | Some i1 =>
      let namespace := take i1 s in
      let s1 := drop (S i1) s in
      match last_index field_separator s1 with
      | None => Err
      | Some i2 =>
          let kind := drop (S i2) s1 in
          let s2 := take i2 s1 in
          match last_index field_separator s2 with
          | None => Err
          | Some i3 =>
              let group := drop (S i3) s2 in
              let name := replace_all colon_transcoded ":" (take i3 s2) in
              if contains field_separator name then Err
              else Ok (mkOid namespace name group kind)
          end
      end
  end.

(* ---- map[string]string: insertion ordered association list, unique keys.
   Go iterates maps in an unspecified order; results are compared as sets. *)
Definition smap := list (string * string).

Fixpoint map_set (k v : string) (m : smap) : smap :=
  match m with
  | [] => [(k, v)]
  | (k', v') :: t => if String.eqb k' k then (k', v) :: t else (k', v') :: map_set k v t
  end.

Definition map_keys (m : smap) : list string := map fst m.

(* ObjMetadataSet.ToStringMap: no validation *)
Definition to_string_map (ids : list oid) : smap :=
  fold_left (fun m i => map_set (string_of_id i) "" m) ids [].

(* an error for any key makes the whole read an error *)
Fixpoint parse_keys (ks : list string) : result (list oid) :=
  match ks with
  | [] => Ok []
  | k :: t =>
      match parse_id k with
      | Err => Err
      | Ok i => match parse_keys t with Err => Err | Ok l => Ok (i :: l) end
      end
  end.

(* FromStringMap *)
Definition from_string_map (m : smap) : result (list oid) := parse_keys (map_keys m).

(* ---- inventory.ConfigMap --------------------------------------------------
   `data` of the wrapped object: absent, not a map of strings, or a map *)
Inductive cmdata := DAbsent | DInvalid | DMap (m : smap).

(* statuses are carried as (id, rendered JSON value); the map built from them
   keeps the last entry per id *)
Record cm := mkCm { cm_data : cmdata; cm_objs : list oid; cm_status : list (oid * string) }.

Definition wrap (d : cmdata) : cm := mkCm d [] [].

Definition status_value (st : list (oid * string)) (i : oid) : string :=
  fold_left (fun acc p => if oid_eqb (fst p) i then snd p else acc) st "".

(* buildObjMap *)
Definition build_obj_map (ids : list oid) (st : list (oid * string)) : smap :=
  fold_left (fun m i => map_set (string_of_id i) (status_value st i) m) ids [].

(* the check added by the fix: the key must parse back to the same id *)
Definition storable (i : oid) : bool :=
  match parse_id (string_of_id i) with
  | Ok j => oid_eqb j i
  | Err => false
  end.

(* ConfigMap.Store: (new state, error?) — on error the wrapper is unchanged *)
Definition cm_store (c : cm) (ids : list oid) (st : list (oid * string)) : cm * bool :=
  if forallb storable ids then (mkCm (cm_data c) ids st, false) else (c, true).

(* ConfigMap.GetObject: the data section of the object that will be written *)
Definition cm_get_object (c : cm) : cmdata := DMap (build_obj_map (cm_objs c) (cm_status c)).

(* ConfigMap.Load reads the wrapped object's data, not what Store was given *)
Definition cm_load (c : cm) : result (list oid) :=
  match cm_data c with
  | DAbsent => Ok []
  | DInvalid => Err
  | DMap m => parse_keys (map_keys m)
  end.

(* one run writes, the next run loads *)
Definition store_then_load (c : cm) (ids : list oid) (st : list (oid * string)) : result (list oid) :=
  let (c', err) := cm_store c ids st in
  if err then Err else cm_load (wrap (cm_get_object c')).

(* ---- well-formedness used by the theorems --------------------------------- *)
Definition no_sep (s : string) : bool := negb (contains field_separator s).
Definition id_wf (i : oid) : bool :=
  no_sep (o_ns i) && no_sep (o_name i) && no_sep (o_grp i) && no_sep (o_knd i).
