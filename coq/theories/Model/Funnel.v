(* C16 (a) — small-step model of pkg/kstatus/watcher/event_funnel.go.

   One transition per blocking operation of the Go code; the schedule (a list
   of actions) is an explicit input, so the model is executable and "for all
   interleavings" is a [forall] over that list.

   Threads of the real code and their program points:

   * funnel main goroutine (newEventFunnel): the [for { select {...} }] loop
       MLoop       parked in   select { delta := <-counterCh ; <-ctxDoneCh }
                   (after either case the exit test
                    [ctxDoneCh == nil && inputs <= 0] runs in the same step)
       MBreak      left the loop, deferred function not yet run
       MOutClosed  close(outCh) done, close(doneCh) not yet
       MDone       both closed, goroutine finished
   * AddInputChannel (caller's goroutine):
       select { <-ctx.Done() -> EventFunnelClosedError ; counterCh <- 1 }
       the second case is a rendezvous with the main loop (which must be at
       MLoop), then [go m.drain(inCh, outCh)].  When both cases are ready Go
       picks either: two actions, [AAdd] and [AAddErr].
   * drain goroutine (one per successful AddInputChannel):
       DRecv    at   for event := range inCh       (blocks; ends when closed)
       DSend e  at   outCh <- event                (plain send, NO select on ctx)
       DExit    at   deferred  counterCh <- -1     (rendezvous with main loop)
       DDone    finished
   * producers (environment): send on / close an input channel.  Input channels
     are unbuffered; a producer blocked in [inCh <- e] is represented by [e]
     sitting in the input's queue (Go's sendq is FIFO).  Closing a channel with
     a blocked sender, or sending on a closed one, panics in the PRODUCER; those
     environment steps are disabled in the model.
   * consumer (environment): receives from outCh; [ADeliver d] is the
     rendezvous between drain [d]'s send and the consumer's receive.  A drain
     that reaches its send when outCh is closed panics: recorded in [panicked].
*)
From Coq Require Import List Bool Arith ZArith.
Import ListNotations.

Definition ev := nat.

Inductive dpc := DRecv | DSend (e : ev) | DExit | DDone.
Inductive mpc := MLoop | MBreak | MOutClosed | MDone.
Inductive addres := AddOk | AddClosedErr.

Record input := mkInput { i_closed : bool; i_queue : list ev }.
Record drain := mkDrain { d_in : nat; d_pc : dpc }.

Record state := mkState {
  ctx_done : bool;            (* ctx.Done() closed *)
  m_pc : mpc;                 (* funnel main goroutine *)
  m_seen : bool;              (* its local  ctxDoneCh == nil *)
  m_inputs : Z;               (* its local  inputs  (Go int) *)
  inputs : list input;        (* input channels created so far *)
  drains : list drain;        (* drain goroutines, in creation order *)
  offered : list ev;          (* every event a producer has sent / is blocked sending *)
  accepted : list ev;         (* events received by a drain from its input *)
  delivered : list ev;        (* events received by the consumer from outCh, in order *)
  adds : list (nat * addres); (* results of AddInputChannel calls, in order *)
  panicked : bool             (* a drain executed a send on the closed outCh *)
}.

Definition init : state :=
  mkState false MLoop false 0%Z [] [] [] [] [] [] false.

Definition out_closed (s : state) : bool :=
  match m_pc s with MOutClosed | MDone => true | _ => false end.
Definition done_closed (s : state) : bool :=
  match m_pc s with MDone => true | _ => false end.

Inductive action :=
| ANew                      (* environment: make(chan event.Event) *)
| AAdd (k : nat)            (* AddInputChannel(k): counter case of the select *)
| AAddErr (k : nat)         (* AddInputChannel(k): ctx.Done case of the select *)
| ASend (k : nat) (e : ev)  (* producer starts  inCh_k <- e *)
| AClose (k : nat)          (* producer: close(inCh_k) *)
| ACancel                   (* ctx cancelled *)
| ADrainRecv (d : nat)      (* drain d: one iteration of  range inCh *)
| ADeliver (d : nat)        (* drain d: outCh <- event, received by the consumer *)
| ADrainExit (d : nat)      (* drain d: counterCh <- -1 *)
| AMainCtx                  (* main loop: case <-ctxDoneCh *)
| AMainClose.               (* main goroutine: next close of the deferred function *)

Fixpoint set_nth {A} (n : nat) (x : A) (l : list A) : list A :=
  match l, n with
  | [], _ => []
  | _ :: t, O => x :: t
  | h :: t, S n' => h :: set_nth n' x t
  end.

(* exit test of the loop, evaluated after every select case *)
Definition main_check (seen : bool) (n : Z) : mpc :=
  if seen && (n <=? 0)%Z then MBreak else MLoop.

Definition is_done (p : dpc) : bool := match p with DDone => true | _ => false end.

Definition step (s : state) (a : action) : option state :=
  let '(mkState cd mp seen n ins drs off acc del ads pan) := s in
  match a with
  | ANew => Some (mkState cd mp seen n (ins ++ [mkInput false []]) drs off acc del ads pan)
  | AAdd k =>
      match mp with
      | MLoop =>
          let n' := (n + 1)%Z in
          Some (mkState cd (main_check seen n') seen n' ins (drs ++ [mkDrain k DRecv])
                        off acc del (ads ++ [(k, AddOk)]) pan)
      | _ => None   (* nobody receives from counterCh any more *)
      end
  | AAddErr k =>
      if cd then Some (mkState cd mp seen n ins drs off acc del (ads ++ [(k, AddClosedErr)]) pan)
      else None
  | ASend k e =>
      match nth_error ins k with
      | Some (mkInput false q) =>
          Some (mkState cd mp seen n (set_nth k (mkInput false (q ++ [e])) ins) drs
                        (off ++ [e]) acc del ads pan)
      | _ => None
      end
  | AClose k =>
      match nth_error ins k with
      | Some (mkInput false []) =>
          Some (mkState cd mp seen n (set_nth k (mkInput true []) ins) drs off acc del ads pan)
      | _ => None
      end
  | ACancel => Some (mkState true mp seen n ins drs off acc del ads pan)
  | ADrainRecv d =>
      match nth_error drs d with
      | Some (mkDrain k DRecv) =>
          match nth_error ins k with
          | Some (mkInput c (e :: q)) =>
              Some (mkState cd mp seen n (set_nth k (mkInput c q) ins)
                            (set_nth d (mkDrain k (DSend e)) drs) off (acc ++ [e]) del ads pan)
          | Some (mkInput true []) =>
              Some (mkState cd mp seen n ins (set_nth d (mkDrain k DExit) drs) off acc del ads pan)
          | _ => None
          end
      | _ => None
      end
  | ADeliver d =>
      match nth_error drs d with
      | Some (mkDrain k (DSend e)) =>
          match mp with
          | MOutClosed | MDone =>   (* send on closed channel *)
              Some (mkState cd mp seen n ins drs off acc del ads true)
          | _ =>
              Some (mkState cd mp seen n ins (set_nth d (mkDrain k DRecv) drs) off acc
                            (del ++ [e]) ads pan)
          end
      | _ => None
      end
  | ADrainExit d =>
      match nth_error drs d, mp with
      | Some (mkDrain k DExit), MLoop =>
          let n' := (n - 1)%Z in
          Some (mkState cd (main_check seen n') seen n' ins (set_nth d (mkDrain k DDone) drs)
                        off acc del ads pan)
      | _, _ => None
      end
  | AMainCtx =>
      match mp with
      | MLoop => if cd && negb seen
                 then Some (mkState cd (main_check true n) true n ins drs off acc del ads pan)
                 else None
      | _ => None
      end
  | AMainClose =>
      match mp with
      | MBreak => Some (mkState cd MOutClosed seen n ins drs off acc del ads pan)
      | MOutClosed => Some (mkState cd MDone seen n ins drs off acc del ads pan)
      | _ => None
      end
  end.

(* a disabled action is skipped: every list of actions is a schedule *)
Definition step_skip (s : state) (a : action) : state :=
  match step s a with Some s' => s' | None => s end.
Definition run (s : state) (sched : list action) : state := fold_left step_skip sched s.

(* strict variant: every action must be enabled *)
Fixpoint run_strict (s : state) (sched : list action) : option state :=
  match sched with
  | [] => Some s
  | a :: t => match step s a with Some s' => run_strict s' t | None => None end
  end.

Definition reachable (s : state) : Prop := exists sched, s = run init sched.

(* ---- measures used by the statements --------------------------------- *)
Fixpoint sumf {A} (f : A -> nat) (l : list A) : nat :=
  match l with [] => 0 | a :: t => f a + sumf f t end.

Fixpoint count (x : ev) (l : list ev) : nat :=
  match l with [] => 0 | h :: t => (if Nat.eqb h x then 1 else 0) + count x t end.

Definition live (drs : list drain) : nat :=
  sumf (fun d => if is_done (d_pc d) then 0 else 1) drs.
Definition held_count (x : ev) (drs : list drain) : nat :=
  sumf (fun d => match d_pc d with DSend e => if Nat.eqb e x then 1 else 0 | _ => 0 end) drs.
Definition queued_count (x : ev) (ins : list input) : nat :=
  sumf (fun i => count x (i_queue i)) ins.
Definition queued_total (ins : list input) : nat := sumf (fun i => length (i_queue i)) ins.

(* ---- the steps the funnel and a receiving consumer take on their own --- *)
Definition internal (a : action) : bool :=
  match a with
  | ADrainRecv _ | ADeliver _ | ADrainExit _ | AMainCtx | AMainClose => true
  | _ => false
  end.

Definition enabled (s : state) (a : action) : bool :=
  match step s a with Some _ => true | None => false end.

Fixpoint first_enabled (s : state) (l : list action) : option action :=
  match l with
  | [] => None
  | a :: t => if enabled s a then Some a else first_enabled s t
  end.

Definition drain_actions (n : nat) : list action :=
  flat_map (fun d => [ADrainRecv d; ADeliver d; ADrainExit d]) (seq 0 n).

(* deterministic round-robin scheduler over the internal actions *)
Definition pick (s : state) : option action :=
  first_enabled s (AMainCtx :: AMainClose :: drain_actions (length (drains s))).

Fixpoint auto (fuel : nat) (s : state) : state :=
  match fuel with
  | O => s
  | S f => match pick s with
           | Some a => auto f (step_skip s a)
           | None => s
           end
  end.

Definition drain_weight (d : drain) : nat :=
  match d_pc d with DRecv => 2 | DSend _ => 3 | DExit => 1 | DDone => 0 end.
Definition main_weight (s : state) : nat :=
  match m_pc s with
  | MLoop => if m_seen s then 2 else 3
  | MBreak => 2
  | MOutClosed => 1
  | MDone => 0
  end.
(* number of internal steps after which the funnel must have shut down *)
Definition bound (s : state) : nat :=
  main_weight s + sumf drain_weight (drains s) + 2 * queued_total (inputs s).

(* every input a live drain reads from has been closed by its producer *)
Definition drained_inputs_closed (s : state) : Prop :=
  forall d, In d (drains s) -> is_done (d_pc d) = false ->
            exists q, nth_error (inputs s) (d_in d) = Some (mkInput true q).
