(* C16 (b) — the status reporter (object_status_reporter.go,
   default_status_watcher.go, object_filter.go) as a function from cluster
   mutations to emitted events.

   What is modelled, function by function:
   * DefaultStatusWatcher.Watch: targets from the watched ids (rootScopeGKNs /
     namespaceScopeGKNs), AllowListObjectFilter over the ids;
   * ObjectStatusReporter.Start: every target is started (startInformer);
   * informerReference.Start/Stop through [start_leaf]/[stop_target]: starting a
     started target and stopping a stopped one are no-ops; a target whose kind
     the RESTMapper cannot resolve (NoMatch) is stopped again and stays so;
   * a started informer lists the objects it covers and calls AddFunc for each
     ([list_events] / [start_top]);
   * eventHandler AddFunc/UpdateFunc ([handle_upsert]) and DeleteFunc
     ([handle_delete]): bail out when the context is cancelled, filter, then
     namespace / CRD hooks (onNamespaceAdd/Update/Delete, onCRDAdd/Update/Delete
     incl. the RESTMapper reset), then ONE update event with the computed status
     (NotFound for deletes);
   * handleFatalError: sync.Once { error event; Stop() } ([handle_fatal]);
   * the sync event: once, only while not stopped ([do_sync]).

   NOT modelled: the delayed re-check of an unschedulable Pod (taskManager,
   newStatusCheckTaskFunc, unschedulable.go).  The status the library computes
   for such a pod changes with the wall clock (InProgress inside
   status.ScheduleWindow after creationTimestamp, Failed beyond), which
   contradicts the premise of this model that the status is a function of the
   version ([p_status]); a tick step would have to mutate the cluster's statuses.
   That behaviour is checked by the monitor of Corr/CorrC16.v on real 17 s runs
   (fields rc_tick / rc_late) and by no theorem.

   Abstractions: the status the library computes for a version is carried by the
   mutation ([p_status]; the harness obtains it from the library); informers
   deliver notifications one at a time in cluster order; goroutines spawned by
   startInformer run to completion before the next mutation (the harness waits
   for quiescence).  Assumptions about the cluster: a Namespace object has a
   non-empty name, a CRD never defines the Namespace or CRD kind, and a kind is
   watched either cluster-wide or per namespace -- so a target started from a
   hook never lists Namespace/CRD objects and [list_events] needs no hooks, and
   at most one started target covers an object. *)
From Coq Require Import List Bool Arith.
Import ListNotations.

Definition GK_NS := 0.
Definition GK_CRD := 1.

Record oid := mkOid { o_gk : nat; o_ns : nat; o_name : nat }.  (* o_ns = 0: no namespace *)
Definition oid_eqb (a b : oid) : bool :=
  Nat.eqb (o_gk a) (o_gk b) && Nat.eqb (o_ns a) (o_ns b) && Nat.eqb (o_name a) (o_name b).

Inductive status := SInProgress | SFailed | SCurrent | STerminating | SNotFound | SUnknown.
Definition status_eqb (a b : status) : bool :=
  match a, b with
  | SInProgress, SInProgress | SFailed, SFailed | SCurrent, SCurrent
  | STerminating, STerminating | SNotFound, SNotFound | SUnknown, SUnknown => true
  | _, _ => false
  end.

(* p_defines: for a CRD object, the kind it defines (None: group/kind missing).
   p_slow: the status computation of this version does not return while its
   informer runs (a cluster lookup in flight); when the informer is stopped or
   the reporter cancelled it fails with the context error, which
   handleFatalError ignores (context.Canceled / DeadlineExceeded): no event, no
   hook, no stop.  The handler goroutine of that informer is blocked meanwhile;
   later notifications of the same target before its stop are not modelled (the
   harness issues none). *)
Record payload := mkPayload { p_status : status; p_defines : option nat; p_slow : bool }.

Inductive scope := ScopeRoot | ScopeNamespace.
Record target := mkTarget { t_gk : nat; t_ns : nat }.   (* t_ns = 0: all namespaces *)
Definition target_eqb (a b : target) : bool :=
  Nat.eqb (t_gk a) (t_gk b) && Nat.eqb (t_ns a) (t_ns b).

Inductive event := ESync | EUpdate (id : oid) (st : status) | EError.

Inductive mutation :=
| MAdd (id : oid) (p : payload)
| MUpdate (id : oid) (p : payload)
| MDelete (id : oid).

Inductive rstep :=
| SMut (m : mutation)   (* the cluster changes *)
| SSync                 (* all started informers have synced *)
| SCancel               (* the caller cancels the context *)
| SFail                 (* one informer reports a fatal (Forbidden) error *)
| SBreak (g : nat)      (* the watch connections of kind g break: changes are no longer delivered *)
| SRelist (g : nat).    (* ... and are answered with 410 Expired: the reflectors of kind g re-list *)

Record config := mkConfig {
  c_scope : scope;
  c_watched : list oid;     (* ids passed to Watch *)
  c_builtin : list nat      (* kinds the API server serves without a CRD *)
}.

Record rstate := mkR {
  r_cluster : list (oid * payload);
  r_mapper : list nat;        (* kinds the RESTMapper cache resolves *)
  r_started : list target;    (* informerRefs[t].started *)
  r_synced : bool;            (* sync event sent *)
  r_stopped : bool;           (* reporter context cancelled *)
  r_errsent : bool;           (* fatalErrorOnce fired *)
  r_events : list event;
  (* watch gaps: for each kind whose watch connections are broken, the objects
     of that kind changed since the break with their state AT the break (None:
     did not exist) -- i.e. what the informer's store still holds for them *)
  r_gaps : list (nat * list (oid * option payload))
}.

(* ---- Watch: targets and filter ----------------------------------------- *)
Definition target_of (sc : scope) (id : oid) : target :=
  match sc with
  | ScopeRoot => mkTarget (o_gk id) 0
  | ScopeNamespace => mkTarget (o_gk id) (o_ns id)
  end.

Definition tmem (t : target) (l : list target) : bool := existsb (target_eqb t) l.
Fixpoint tdedup (l : list target) : list target :=
  match l with
  | [] => []
  | t :: r => if tmem t r then tdedup r else t :: tdedup r
  end.
Definition targets (c : config) : list target := tdedup (map (target_of (c_scope c)) (c_watched c)).

(* AllowListObjectFilter.Filter returns true when the object is to be SKIPPED;
   [allowed] is its negation *)
Definition allowed (c : config) (id : oid) : bool := existsb (oid_eqb id) (c_watched c).

Definition covers (t : target) (id : oid) : bool :=
  Nat.eqb (t_gk t) (o_gk id) && (Nat.eqb (t_ns t) 0 || Nat.eqb (t_ns t) (o_ns id)).
Definition covered (st : rstate) (id : oid) : bool := existsb (fun t => covers t id) (r_started st).

(* ---- cluster ------------------------------------------------------------ *)
Fixpoint lookup (cl : list (oid * payload)) (id : oid) : option payload :=
  match cl with
  | [] => None
  | (k, p) :: t => if oid_eqb k id then Some p else lookup t id
  end.
Definition remove_obj (cl : list (oid * payload)) (id : oid) : list (oid * payload) :=
  filter (fun kp => negb (oid_eqb (fst kp) id)) cl.
Definition upsert (cl : list (oid * payload)) (id : oid) (p : payload) : list (oid * payload) :=
  (id, p) :: remove_obj cl id.

(* kinds served: built in, or defined by a CRD object present in the cluster *)
Definition served (c : config) (cl : list (oid * payload)) : list nat :=
  c_builtin c ++
  flat_map (fun kp => if Nat.eqb (o_gk (fst kp)) GK_CRD
                      then match p_defines (snd kp) with Some g => [g] | None => [] end
                      else []) cl.

(* ---- state updates ------------------------------------------------------ *)
Definition set_cluster (st : rstate) (cl : list (oid * payload)) : rstate :=
  mkR cl (r_mapper st) (r_started st) (r_synced st) (r_stopped st) (r_errsent st) (r_events st) (r_gaps st).
Definition set_mapper (st : rstate) (m : list nat) : rstate :=
  mkR (r_cluster st) m (r_started st) (r_synced st) (r_stopped st) (r_errsent st) (r_events st) (r_gaps st).
Definition set_started (st : rstate) (l : list target) : rstate :=
  mkR (r_cluster st) (r_mapper st) l (r_synced st) (r_stopped st) (r_errsent st) (r_events st) (r_gaps st).
Definition emit (st : rstate) (evs : list event) : rstate :=
  mkR (r_cluster st) (r_mapper st) (r_started st) (r_synced st) (r_stopped st) (r_errsent st)
      (r_events st ++ evs) (r_gaps st).

(* meta.MaybeResetRESTMapper *)
Definition reset_mapper (c : config) (st : rstate) : rstate := set_mapper st (served c (r_cluster st)).

(* ---- informer bookkeeping ----------------------------------------------- *)
(* AddFunc calls of a freshly started informer for the objects it lists *)
Definition list_events (c : config) (st : rstate) (t : target) : list event :=
  flat_map (fun kp => if covers t (fst kp) && allowed c (fst kp) && negb (p_slow (snd kp))
                      then [EUpdate (fst kp) (p_status (snd kp))] else [])
           (r_cluster st).

(* startInformer for a target whose listing needs no hooks *)
Definition start_leaf (c : config) (st : rstate) (t : target) : rstate :=
  if tmem t (r_started st) then st                         (* already started *)
  else if negb (existsb (Nat.eqb (t_gk t)) (r_mapper st)) then st   (* NoMatch: stopped again *)
  else let st1 := set_started st (r_started st ++ [t]) in
       if r_stopped st1 then st1                           (* handlers bail out *)
       else emit st1 (list_events c st1 t).

(* informerReference.Stop *)
Definition stop_target (st : rstate) (t : target) : rstate :=
  set_started st (filter (fun u => negb (target_eqb u t)) (r_started st)).

Definition is_ns (id : oid) : bool := Nat.eqb (o_gk id) GK_NS.
Definition is_crd (id : oid) : bool := Nat.eqb (o_gk id) GK_CRD.

(* onNamespaceAdd / onNamespaceUpdate *)
Definition on_ns_upsert (c : config) (st : rstate) (ns : nat) : rstate :=
  match c_scope c with
  | ScopeRoot => st
  | ScopeNamespace =>
      fold_left (start_leaf c) (filter (fun t => Nat.eqb (t_ns t) ns) (targets c)) st
  end.
(* onNamespaceDelete *)
Definition on_ns_delete (c : config) (st : rstate) (ns : nat) : rstate :=
  match c_scope c with
  | ScopeRoot => st
  | ScopeNamespace =>
      fold_left stop_target (filter (fun t => Nat.eqb (t_ns t) ns) (targets c)) st
  end.
(* onCRDAdd / onCRDUpdate: reset the mapper, then start the targets of the kind *)
Definition on_crd_upsert (c : config) (st : rstate) (p : payload) : rstate :=
  match p_defines p with
  | None => st
  | Some g => fold_left (start_leaf c) (filter (fun t => Nat.eqb (t_gk t) g) (targets c))
                        (reset_mapper c st)
  end.
(* onCRDDelete: stop the targets of the kind, then reset the mapper *)
Definition on_crd_delete (c : config) (st : rstate) (p : payload) : rstate :=
  match p_defines p with
  | None => st
  | Some g => reset_mapper c
                (fold_left stop_target (filter (fun t => Nat.eqb (t_gk t) g) (targets c)) st)
  end.

(* ---- event handlers ------------------------------------------------------ *)
(* AddFunc / UpdateFunc *)
Definition handle_upsert (c : config) (st : rstate) (id : oid) (p : payload) : rstate :=
  if r_stopped st then st
  else if negb (allowed c id) then st
  else if p_slow p then st      (* read cancelled later: context error, ignored *)
  else
    let st1 := emit st [EUpdate id (p_status p)] in
    if is_ns id then on_ns_upsert c st1 (o_name id)
    else if is_crd id then on_crd_upsert c st1 p
    else st1.

(* DeleteFunc; [p] is the last known state of the object *)
Definition handle_delete (c : config) (st : rstate) (id : oid) (p : payload) : rstate :=
  if r_stopped st then st
  else if negb (allowed c id) then st
  else
    let st1 := if is_ns id then on_ns_delete c st (o_name id)
               else if is_crd id then on_crd_delete c st p
               else st in
    emit st1 [EUpdate id SNotFound].

(* handleFatalError: at most once { error event; Stop() } *)
Definition handle_fatal (st : rstate) : rstate :=
  if r_errsent st then st
  else mkR (r_cluster st) (r_mapper st) (r_started st) (r_synced st) true true
           (r_events st ++ [EError]) (r_gaps st).

Definition do_sync (st : rstate) : rstate :=
  if r_stopped st || r_synced st then st
  else mkR (r_cluster st) (r_mapper st) (r_started st) true (r_stopped st) (r_errsent st)
           (r_events st ++ [ESync]) (r_gaps st).

Definition do_cancel (st : rstate) : rstate :=
  mkR (r_cluster st) (r_mapper st) (r_started st) (r_synced st) true (r_errsent st) (r_events st) (r_gaps st).

(* ---- Start ---------------------------------------------------------------- *)
(* startInformer at Start: the listing goes through the full AddFunc *)
Definition start_top (c : config) (st : rstate) (t : target) : rstate :=
  if tmem t (r_started st) then st
  else if negb (existsb (Nat.eqb (t_gk t)) (r_mapper st)) then st
  else let st1 := set_started st (r_started st ++ [t]) in
       fold_left (fun s kp => if covers t (fst kp) then handle_upsert c s (fst kp) (snd kp) else s)
                 (r_cluster st1) st1.

Definition start (c : config) (cl : list (oid * payload)) : rstate :=
  fold_left (start_top c) (targets c) (mkR cl (served c cl) [] false false false [] []).

(* ---- cluster mutations ----------------------------------------------------- *)
Definition mut_id_of (m : mutation) : oid :=
  match m with MAdd id _ | MUpdate id _ | MDelete id => id end.

Definition mutate (c : config) (st : rstate) (m : mutation) : rstate :=
  match m with
  | MAdd id p | MUpdate id p =>
      let st1 := set_cluster st (upsert (r_cluster st) id p) in
      if covered st1 id then handle_upsert c st1 id p else st1
  | MDelete id =>
      match lookup (r_cluster st) id with
      | None => st                                   (* nothing to delete *)
      | Some p =>
          let st1 := set_cluster st (remove_obj (r_cluster st) id) in
          if covered st1 id then handle_delete c st1 id p else st1
      end
  end.

(* ---- watch gaps -------------------------------------------------------------
   When the watch connection of an informer breaks and the server answers the
   re-watch with 410 Gone/Expired, the reflector RE-LISTS and the shared informer
   diffs the list against its store (DeltaFIFO.Replace): an object that is in the
   list and in the store is delivered as ONE update notification (UpdateFunc)
   with the listed -- final -- version, also when it was deleted and re-created
   in between (same key, new UID: observed on the real code, a single update, no
   tombstone); an object only in the list as an add (AddFunc); an object only in
   the store as a cache.DeletedFinalStateUnknown tombstone (DeleteFunc, which
   unwraps it).  Replace queues the listed objects first, then the tombstones.
   Observed on the real code: objects that did NOT change in the gap are
   re-reported as well -- sharedIndexInformer classifies an unchanged
   resourceVersion as a "sync" notification, and a listener counts as syncing
   until its first resync check (ResyncPeriod, 1 h by default), so within that
   period every listed object yields an UpdateFunc call.  The model is that of
   the first resync period.
   Assumption (harness-enforced): no target of a kind is started or stopped
   while that kind is in a gap. *)
Definition set_gaps (st : rstate) (g : list (nat * list (oid * option payload))) : rstate :=
  mkR (r_cluster st) (r_mapper st) (r_started st) (r_synced st) (r_stopped st) (r_errsent st)
      (r_events st) g.

Definition in_gap (st : rstate) (g : nat) : bool := existsb (fun e => Nat.eqb (fst e) g) (r_gaps st).

Fixpoint gap_of (gaps : list (nat * list (oid * option payload))) (g : nat)
  : option (list (oid * option payload)) :=
  match gaps with
  | [] => None
  | (k, l) :: t => if Nat.eqb k g then Some l else gap_of t g
  end.

Definition touched (st : rstate) (g : nat) (id : oid) : bool :=
  match gap_of (r_gaps st) g with
  | Some l => existsb (fun e => oid_eqb (fst e) id) l
  | None => false
  end.

(* remember the state of [id] at the break, the first time it changes in the gap *)
Definition touch (gaps : list (nat * list (oid * option payload))) (g : nat) (id : oid)
           (old : option payload) : list (nat * list (oid * option payload)) :=
  map (fun e => if Nat.eqb (fst e) g
                then (fst e, if existsb (fun x => oid_eqb (fst x) id) (snd e) then snd e
                             else snd e ++ [(id, old)])
                else e) gaps.

Definition do_break (st : rstate) (g : nat) : rstate :=
  if in_gap st g then st else set_gaps st (r_gaps st ++ [(g, [])]).

(* a mutation the informers of its kind do not see *)
Definition mutate_gap (st : rstate) (m : mutation) : rstate :=
  let id := mut_id_of m in
  let g := o_gk id in
  let old := lookup (r_cluster st) id in
  match m with
  | MAdd _ p | MUpdate _ p =>
      set_gaps (set_cluster st (upsert (r_cluster st) id p)) (touch (r_gaps st) g id old)
  | MDelete _ =>
      match old with
      | None => st
      | Some _ => set_gaps (set_cluster st (remove_obj (r_cluster st) id)) (touch (r_gaps st) g id old)
      end
  end.

(* re-list, first pass: objects that are in the list *)
Definition relist_upsert (c : config) (st : rstate) (e : oid * option payload) : rstate :=
  match lookup (r_cluster st) (fst e) with
  | Some p => if covered st (fst e) then handle_upsert c st (fst e) p else st
  | None => st
  end.
(* second pass: objects of the store that are not in the list (tombstones) *)
Definition relist_delete (c : config) (st : rstate) (e : oid * option payload) : rstate :=
  match lookup (r_cluster st) (fst e), snd e with
  | None, Some o => if covered st (fst e) then handle_delete c st (fst e) o else st
  | _, _ => st
  end.

Definition do_relist (c : config) (st : rstate) (g : nat) : rstate :=
  match gap_of (r_gaps st) g with
  | None => st
  | Some l =>
      let st0 := set_gaps st (filter (fun e => negb (Nat.eqb (fst e) g)) (r_gaps st)) in
      (* the entries recorded for kind g are objects of kind g by construction
         ([mutate_gap]); the filter states it *)
      let l' := filter (fun e => Nat.eqb (o_gk (fst e)) g) l in
      (* every object of kind g in the list *)
      let listed := map (fun kp : oid * payload => (fst kp, @None payload))
                        (filter (fun kp => Nat.eqb (o_gk (fst kp)) g) (r_cluster st)) in
      fold_left (relist_delete c) l' (fold_left (relist_upsert c) listed st0)
  end.

Definition rstep_apply (c : config) (st : rstate) (s : rstep) : rstate :=
  match s with
  | SMut m => if in_gap st (o_gk (mut_id_of m)) then mutate_gap st m else mutate c st m
  | SSync => do_sync st
  | SCancel => do_cancel st
  | SFail => handle_fatal st
  | SBreak g => do_break st g
  | SRelist g => do_relist c st g
  end.

(* the cluster holds [pre] (applied to the empty cluster) when Watch is called *)
Definition cluster_of (pre : list (oid * payload)) : list (oid * payload) :=
  fold_left (fun cl kp => upsert cl (fst kp) (snd kp)) pre [].

Definition run (c : config) (pre : list (oid * payload)) (steps : list rstep) : rstate :=
  fold_left (rstep_apply c) steps (start c (cluster_of pre)).

(* ---- observables ------------------------------------------------------------ *)
Definition mut_id (m : mutation) : oid := mut_id_of m.

(* status carried by the last update event about [id] *)
Fixpoint last_for (id : oid) (evs : list event) : option status :=
  match evs with
  | [] => None
  | e :: t =>
      match last_for id t with
      | Some s => Some s
      | None => match e with
                | EUpdate k s => if oid_eqb k id then Some s else None
                | _ => None
                end
      end
  end.

Definition statuses_for (id : oid) (evs : list event) : list status :=
  flat_map (fun e => match e with EUpdate k s => if oid_eqb k id then [s] else [] | _ => [] end) evs.

Definition count_errors (evs : list event) : nat :=
  length (filter (fun e => match e with EError => true | _ => false end) evs).
Definition count_syncs (evs : list event) : nat :=
  length (filter (fun e => match e with ESync => true | _ => false end) evs).

(* the state of [id] the cluster ends in, as a status *)
Definition final_status (st : rstate) (id : oid) : status :=
  match lookup (r_cluster st) id with Some p => p_status p | None => SNotFound end.
