(* C16 (b) — the status reporter (object_status_reporter.go,
   default_status_watcher.go, object_filter.go) as a function from cluster
   mutations to emitted events.

   What is modelled, function by function:
   * DefaultStatusWatcher.Watch: targets from the watched ids (rootScopeGKNs /
     namespaceScopeGKNs), AllowListObjectFilter over the ids;
   * ObjectStatusReporter.Start: every target is started (startInformer);
   * informerReference.Start/Stop through [start_leaf]/[stop_target]: starting a
     started target and stopping a stopped one are no-ops; a target whose kind
     the RESTMapper cannot resolve (NoMatch) is stopped again and stays so;
   * a started informer lists the objects it covers and calls AddFunc for each
     ([list_events] / [start_top]);
   * eventHandler AddFunc/UpdateFunc ([handle_upsert]) and DeleteFunc
     ([handle_delete]): bail out when the context is cancelled, filter, then
     namespace / CRD hooks (onNamespaceAdd/Update/Delete, onCRDAdd/Update/Delete
     incl. the RESTMapper reset), then ONE update event with the computed status
     (NotFound for deletes);
   * handleFatalError: sync.Once { error event; Stop() } ([handle_fatal]);
   * the sync event: once, only while not stopped ([do_sync]).

   Abstractions: the status the library computes for a version is carried by the
   mutation ([p_status]; the harness obtains it from the library); informers
   deliver notifications one at a time in cluster order; goroutines spawned by
   startInformer run to completion before the next mutation (the harness waits
   for quiescence).  Assumptions about the cluster: a Namespace object has a
   non-empty name, a CRD never defines the Namespace or CRD kind, and a kind is
   watched either cluster-wide or per namespace -- so a target started from a
   hook never lists Namespace/CRD objects and [list_events] needs no hooks, and
   at most one started target covers an object. *)
From Coq Require Import List Bool Arith.
Import ListNotations.

Definition GK_NS := 0.
Definition GK_CRD := 1.

Record oid := mkOid { o_gk : nat; o_ns : nat; o_name : nat }.  (* o_ns = 0: no namespace *)
Definition oid_eqb (a b : oid) : bool :=
  Nat.eqb (o_gk a) (o_gk b) && Nat.eqb (o_ns a) (o_ns b) && Nat.eqb (o_name a) (o_name b).

Inductive status := SInProgress | SFailed | SCurrent | STerminating | SNotFound | SUnknown.
Definition status_eqb (a b : status) : bool :=
  match a, b with
  | SInProgress, SInProgress | SFailed, SFailed | SCurrent, SCurrent
  | STerminating, STerminating | SNotFound, SNotFound | SUnknown, SUnknown => true
  | _, _ => false
  end.

(* p_defines: for a CRD object, the kind it defines (None: group/kind missing).
   p_slow: the status computation of this version does not return while its
   informer runs (a cluster lookup in flight); when the informer is stopped or
   the reporter cancelled it fails with the context error, which
   handleFatalError ignores (context.Canceled / DeadlineExceeded): no event, no
   hook, no stop.  The handler goroutine of that informer is blocked meanwhile;
   later notifications of the same target before its stop are not modelled (the
   harness issues none). *)
Record payload := mkPayload { p_status : status; p_defines : option nat; p_slow : bool }.

Inductive scope := ScopeRoot | ScopeNamespace.
Record target := mkTarget { t_gk : nat; t_ns : nat }.   (* t_ns = 0: all namespaces *)
Definition target_eqb (a b : target) : bool :=
  Nat.eqb (t_gk a) (t_gk b) && Nat.eqb (t_ns a) (t_ns b).

Inductive event := ESync | EUpdate (id : oid) (st : status) | EError.

Inductive mutation :=
| MAdd (id : oid) (p : payload)
| MUpdate (id : oid) (p : payload)
| MDelete (id : oid).

Inductive rstep :=
| SMut (m : mutation)   (* the cluster changes *)
| SSync                 (* all started informers have synced *)
| SCancel               (* the caller cancels the context *)
| SFail.                (* one informer reports a fatal (Forbidden) error *)

Record config := mkConfig {
  c_scope : scope;
  c_watched : list oid;     (* ids passed to Watch *)
  c_builtin : list nat      (* kinds the API server serves without a CRD *)
}.

Record rstate := mkR {
  r_cluster : list (oid * payload);
  r_mapper : list nat;        (* kinds the RESTMapper cache resolves *)
  r_started : list target;    (* informerRefs[t].started *)
  r_synced : bool;            (* sync event sent *)
  r_stopped : bool;           (* reporter context cancelled *)
  r_errsent : bool;           (* fatalErrorOnce fired *)
  r_events : list event
}.

(* ---- Watch: targets and filter ----------------------------------------- *)
Definition target_of (sc : scope) (id : oid) : target :=
  match sc with
  | ScopeRoot => mkTarget (o_gk id) 0
  | ScopeNamespace => mkTarget (o_gk id) (o_ns id)
  end.

Definition tmem (t : target) (l : list target) : bool := existsb (target_eqb t) l.
Fixpoint tdedup (l : list target) : list target :=
  match l with
  | [] => []
  | t :: r => if tmem t r then tdedup r else t :: tdedup r
  end.
Definition targets (c : config) : list target := tdedup (map (target_of (c_scope c)) (c_watched c)).

(* AllowListObjectFilter.Filter returns true when the object is to be SKIPPED;
   [allowed] is its negation *)
Definition allowed (c : config) (id : oid) : bool := existsb (oid_eqb id) (c_watched c).

Definition covers (t : target) (id : oid) : bool :=
  Nat.eqb (t_gk t) (o_gk id) && (Nat.eqb (t_ns t) 0 || Nat.eqb (t_ns t) (o_ns id)).
Definition covered (st : rstate) (id : oid) : bool := existsb (fun t => covers t id) (r_started st).

(* ---- cluster ------------------------------------------------------------ *)
Fixpoint lookup (cl : list (oid * payload)) (id : oid) : option payload :=
  match cl with
  | [] => None
  | (k, p) :: t => if oid_eqb k id then Some p else lookup t id
  end.
Definition remove_obj (cl : list (oid * payload)) (id : oid) : list (oid * payload) :=
  filter (fun kp => negb (oid_eqb (fst kp) id)) cl.
Definition upsert (cl : list (oid * payload)) (id : oid) (p : payload) : list (oid * payload) :=
  (id, p) :: remove_obj cl id.

(* kinds served: built in, or defined by a CRD object present in the cluster *)
Definition served (c : config) (cl : list (oid * payload)) : list nat :=
  c_builtin c ++
  flat_map (fun kp => if Nat.eqb (o_gk (fst kp)) GK_CRD
                      then match p_defines (snd kp) with Some g => [g] | None => [] end
                      else []) cl.

(* ---- state updates ------------------------------------------------------ *)
Definition set_cluster (st : rstate) (cl : list (oid * payload)) : rstate :=
  mkR cl (r_mapper st) (r_started st) (r_synced st) (r_stopped st) (r_errsent st) (r_events st).
Definition set_mapper (st : rstate) (m : list nat) : rstate :=
  mkR (r_cluster st) m (r_started st) (r_synced st) (r_stopped st) (r_errsent st) (r_events st).
Definition set_started (st : rstate) (l : list target) : rstate :=
  mkR (r_cluster st) (r_mapper st) l (r_synced st) (r_stopped st) (r_errsent st) (r_events st).
Definition emit (st : rstate) (evs : list event) : rstate :=
  mkR (r_cluster st) (r_mapper st) (r_started st) (r_synced st) (r_stopped st) (r_errsent st)
      (r_events st ++ evs).

(* meta.MaybeResetRESTMapper *)
Definition reset_mapper (c : config) (st : rstate) : rstate := set_mapper st (served c (r_cluster st)).

(* ---- informer bookkeeping ----------------------------------------------- *)
(* AddFunc calls of a freshly started informer for the objects it lists *)
Definition list_events (c : config) (st : rstate) (t : target) : list event :=
  flat_map (fun kp => if covers t (fst kp) && allowed c (fst kp) && negb (p_slow (snd kp))
                      then [EUpdate (fst kp) (p_status (snd kp))] else [])
           (r_cluster st).

(* startInformer for a target whose listing needs no hooks *)
Definition start_leaf (c : config) (st : rstate) (t : target) : rstate :=
  if tmem t (r_started st) then st                         (* already started *)
  else if negb (existsb (Nat.eqb (t_gk t)) (r_mapper st)) then st   (* NoMatch: stopped again *)
  else let st1 := set_started st (r_started st ++ [t]) in
       if r_stopped st1 then st1                           (* handlers bail out *)
       else emit st1 (list_events c st1 t).

(* informerReference.Stop *)
Definition stop_target (st : rstate) (t : target) : rstate :=
  set_started st (filter (fun u => negb (target_eqb u t)) (r_started st)).

Definition is_ns (id : oid) : bool := Nat.eqb (o_gk id) GK_NS.
Definition is_crd (id : oid) : bool := Nat.eqb (o_gk id) GK_CRD.

(* onNamespaceAdd / onNamespaceUpdate *)
Definition on_ns_upsert (c : config) (st : rstate) (ns : nat) : rstate :=
  match c_scope c with
  | ScopeRoot => st
  | ScopeNamespace =>
      fold_left (start_leaf c) (filter (fun t => Nat.eqb (t_ns t) ns) (targets c)) st
  end.
(* onNamespaceDelete *)
Definition on_ns_delete (c : config) (st : rstate) (ns : nat) : rstate :=
  match c_scope c with
  | ScopeRoot => st
  | ScopeNamespace =>
      fold_left stop_target (filter (fun t => Nat.eqb (t_ns t) ns) (targets c)) st
  end.
(* onCRDAdd / onCRDUpdate: reset the mapper, then start the targets of the kind *)
Definition on_crd_upsert (c : config) (st : rstate) (p : payload) : rstate :=
  match p_defines p with
  | None => st
  | Some g => fold_left (start_leaf c) (filter (fun t => Nat.eqb (t_gk t) g) (targets c))
                        (reset_mapper c st)
  end.
(* onCRDDelete: stop the targets of the kind, then reset the mapper *)
Definition on_crd_delete (c : config) (st : rstate) (p : payload) : rstate :=
  match p_defines p with
  | None => st
  | Some g => reset_mapper c
                (fold_left stop_target (filter (fun t => Nat.eqb (t_gk t) g) (targets c)) st)
  end.

(* ---- event handlers ------------------------------------------------------ *)
(* AddFunc / UpdateFunc *)
Definition handle_upsert (c : config) (st : rstate) (id : oid) (p : payload) : rstate :=
  if r_stopped st then st
  else if negb (allowed c id) then st
  else if p_slow p then st      (* read cancelled later: context error, ignored *)
  else
    let st1 := emit st [EUpdate id (p_status p)] in
    if is_ns id then on_ns_upsert c st1 (o_name id)
    else if is_crd id then on_crd_upsert c st1 p
    else st1.

(* DeleteFunc; [p] is the last known state of the object *)
Definition handle_delete (c : config) (st : rstate) (id : oid) (p : payload) : rstate :=
  if r_stopped st then st
  else if negb (allowed c id) then st
  else
    let st1 := if is_ns id then on_ns_delete c st (o_name id)
               else if is_crd id then on_crd_delete c st p
               else st in
    emit st1 [EUpdate id SNotFound].

(* handleFatalError: at most once { error event; Stop() } *)
Definition handle_fatal (st : rstate) : rstate :=
  if r_errsent st then st
  else mkR (r_cluster st) (r_mapper st) (r_started st) (r_synced st) true true
           (r_events st ++ [EError]).

Definition do_sync (st : rstate) : rstate :=
  if r_stopped st || r_synced st then st
  else mkR (r_cluster st) (r_mapper st) (r_started st) true (r_stopped st) (r_errsent st)
           (r_events st ++ [ESync]).

Definition do_cancel (st : rstate) : rstate :=
  mkR (r_cluster st) (r_mapper st) (r_started st) (r_synced st) true (r_errsent st) (r_events st).

(* ---- Start ---------------------------------------------------------------- *)
(* startInformer at Start: the listing goes through the full AddFunc *)
Definition start_top (c : config) (st : rstate) (t : target) : rstate :=
  if tmem t (r_started st) then st
  else if negb (existsb (Nat.eqb (t_gk t)) (r_mapper st)) then st
  else let st1 := set_started st (r_started st ++ [t]) in
       fold_left (fun s kp => if covers t (fst kp) then handle_upsert c s (fst kp) (snd kp) else s)
                 (r_cluster st1) st1.

Definition start (c : config) (cl : list (oid * payload)) : rstate :=
  fold_left (start_top c) (targets c) (mkR cl (served c cl) [] false false false []).

(* ---- cluster mutations ----------------------------------------------------- *)
Definition mutate (c : config) (st : rstate) (m : mutation) : rstate :=
  match m with
  | MAdd id p | MUpdate id p =>
      let st1 := set_cluster st (upsert (r_cluster st) id p) in
      if covered st1 id then handle_upsert c st1 id p else st1
  | MDelete id =>
      match lookup (r_cluster st) id with
      | None => st                                   (* nothing to delete *)
      | Some p =>
          let st1 := set_cluster st (remove_obj (r_cluster st) id) in
          if covered st1 id then handle_delete c st1 id p else st1
      end
  end.

Definition rstep_apply (c : config) (st : rstate) (s : rstep) : rstate :=
  match s with
  | SMut m => mutate c st m
  | SSync => do_sync st
  | SCancel => do_cancel st
  | SFail => handle_fatal st
  end.

(* the cluster holds [pre] (applied to the empty cluster) when Watch is called *)
Definition cluster_of (pre : list (oid * payload)) : list (oid * payload) :=
  fold_left (fun cl kp => upsert cl (fst kp) (snd kp)) pre [].

Definition run (c : config) (pre : list (oid * payload)) (steps : list rstep) : rstate :=
  fold_left (rstep_apply c) steps (start c (cluster_of pre)).

(* ---- observables ------------------------------------------------------------ *)
Definition mut_id (m : mutation) : oid :=
  match m with MAdd id _ | MUpdate id _ | MDelete id => id end.

(* status carried by the last update event about [id] *)
Fixpoint last_for (id : oid) (evs : list event) : option status :=
  match evs with
  | [] => None
  | e :: t =>
      match last_for id t with
      | Some s => Some s
      | None => match e with
                | EUpdate k s => if oid_eqb k id then Some s else None
                | _ => None
                end
      end
  end.

Definition statuses_for (id : oid) (evs : list event) : list status :=
  flat_map (fun e => match e with EUpdate k s => if oid_eqb k id then [s] else [] | _ => [] end) evs.

Definition count_errors (evs : list event) : nat :=
  length (filter (fun e => match e with EError => true | _ => false end) evs).
Definition count_syncs (evs : list event) : nat :=
  length (filter (fun e => match e with ESync => true | _ => false end) evs).

(* the state of [id] the cluster ends in, as a status *)
Definition final_status (st : rstate) (id : oid) : status :=
  match lookup (r_cluster st) id with Some p => p_status p | None => SNotFound end.
