(* Model of pkg/apply/taskrunner/task.go (WaitTask) and condition.go, together
   with the two facts of the environment the wait task reads: the resource
   cache (pkg/apply/cache/resource_cache_map.go, written by runner.go before
   StatusUpdate is called) and the actuation table (pkg/inventory/manager.go,
   Model/ActuationTable.v).  Function-by-function transcription of the code as
   it is now (with the UID checks in the `failed` and `default` branches of
   StatusUpdate).
   Generic in the identifier type.  No proofs in this file. *)
From Coq Require Import List Bool Arith NArith ZArith.
From CliUtils Require Import Model.ObjSet Model.ActuationTable.
Import ListNotations.

(* kstatus status values (pkg/kstatus/status) *)
Inductive kstatus := KInProgress | KFailed | KCurrent | KTerminating | KNotFound | KUnknown.
Definition kstatus_eqb (a b : kstatus) : bool :=
  match a, b with
  | KInProgress, KInProgress | KFailed, KFailed | KCurrent, KCurrent
  | KTerminating, KTerminating | KNotFound, KNotFound | KUnknown, KUnknown => true
  | _, _ => false
  end.

(* cache.ResourceStatus, projected: Status; Resource != nil; Resource.GetUID()
   (0 = ""); Resource.GetGeneration().  o_uid / o_gen are meaningless (and never
   read) when o_has = false. *)
Record cobs := mkObs { o_status : kstatus; o_has : bool; o_uid : N; o_gen : Z }.

(* ResourceCacheMap.Get on a missing key *)
Definition obs_unknown : cobs := mkObs KUnknown false 0%N 0%Z.

(* taskrunner.Condition: the two values the property quantifies over *)
Inductive cond := AllCurrent | AllNotFound.
Definition is_current (c : cond) : bool := match c with AllCurrent => true | AllNotFound => false end.
Definition is_notfound (c : cond) : bool := negb (is_current c).

(* event.WaitEventStatus *)
Inductive wstatus := WPending | WSuccessful | WSkipped | WFailed | WTimeout.
Definition wstatus_eqb (a b : wstatus) : bool :=
  match a, b with
  | WPending, WPending | WSuccessful, WSuccessful | WSkipped, WSkipped
  | WFailed, WFailed | WTimeout, WTimeout => true
  | _, _ => false
  end.
(* the reconcile status written to the Manager next to every event *)
Definition rec_of (w : wstatus) : reconcile :=
  match w with
  | WPending => RPending | WSuccessful => RSucceeded | WSkipped => RSkipped
  | WFailed => RFailed | WTimeout => RTimeout
  end.

Section WaitTask.
  Variable A : Type.
  Variable eqb : A -> A -> bool.

  Definition wevent := (A * wstatus)%type.

  (* ---- the cache ------------------------------------------------------- *)
  Definition cache := A -> cobs.
  Definition cache_empty : cache := fun _ => obs_unknown.
  (* ResourceCacheMap.Put *)
  Definition cache_put (c : cache) (i : A) (o : cobs) : cache :=
    fun j => if eqb i j then o else c j.

  (* ---- state ----------------------------------------------------------- *)
  Record state := mkState {
    st_pending : list A;        (* WaitTask.pending *)
    st_failed  : list A;        (* WaitTask.failed *)
    st_table   : table A;       (* TaskContext.InventoryManager() *)
    st_cache   : cache;         (* TaskContext.ResourceCache() *)
    st_done    : bool           (* cancelFunc has been called / the context is done *)
  }.

  Definition init (t : table A) (c : cache) : state := mkState [] [] t c false.

  (* Manager.Set<X>Reconcile: an unknown id is an error that the task logs and
     ignores *)
  Definition set_rec (t : table A) (i : A) (s : reconcile) : table A :=
    match set_reconcile eqb t i s with
    | Some t' => t'
    | None => t
    end.

  (* ---- condition.go ---------------------------------------------------- *)
  Definition cached_gen (o : cobs) : Z := if o_has o then o_gen o else 0%Z.

  (* allMatchStatus for the one-element set {i} *)
  Definition match_status (t : table A) (ca : cache) (i : A) (s : kstatus) : bool :=
    let o := ca i in
    if negb (kstatus_eqb (o_status o) s) then false
    else
      let apply_gen := fst (applied_gen eqb t i) in
      if Z.ltb (cached_gen o) apply_gen then false else true.

  (* conditionMet (the default branch, noneMatchStatus, is unreachable for
     the two conditions) ; WaitTask.reconciledByID *)
  Definition reconciled_by_id (c : cond) (t : table A) (ca : cache) (i : A) : bool :=
    match c with
    | AllCurrent => match_status t ca i KCurrent
    | AllNotFound => match_status t ca i KNotFound
    end.

  (* WaitTask.skipped.  Go parses `c == X && a || b` as `(c == X && a) || b`. *)
  Definition skipped (c : cond) (t : table A) (i : A) : bool :=
    if (is_current c && is_actuation eqb t i SApply AFailed) || is_actuation eqb t i SApply ASkipped
    then true
    else if (is_notfound c && is_actuation eqb t i SDelete AFailed) || is_actuation eqb t i SDelete ASkipped
    then true
    else false.

  (* WaitTask.failedByID *)
  Definition failed_by_id (ca : cache) (i : A) : bool := kstatus_eqb (o_status (ca i)) KFailed.

  (* WaitTask.changedUID *)
  Definition changed_uid (t : table A) (ca : cache) (i : A) : bool :=
    match lookup eqb t i with
    | None => false
    | Some r =>
        if N.eqb (r_uid r) 0 then false
        else
          let o := ca i in
          if negb (o_has o) then false
          else if N.eqb (o_uid o) 0 then false
          else negb (N.eqb (r_uid r) (o_uid o))
    end.

  (* WaitTask.handleChangedUID: table update and the event *)
  Definition handle_changed_uid (c : cond) (t : table A) (i : A) : table A * wevent :=
    match c with
    | AllNotFound => (set_rec t i RSucceeded, (i, WSuccessful))
    | AllCurrent => (set_rec t i RFailed, (i, WFailed))
    end.

  (* ---- startInner ------------------------------------------------------ *)
  (* one iteration of the loop over w.Ids; the accumulator is
     (table, pending built so far, events sent so far) *)
  Definition start_one (c : cond) (ca : cache) (acc : table A * list A * list wevent) (i : A)
    : table A * list A * list wevent :=
    let '(t, pend, evs) := acc in
    if skipped c t i then (set_rec t i RSkipped, pend, evs ++ [(i, WSkipped)])
    else if changed_uid t ca i then
      let '(t', e) := handle_changed_uid c t i in (t', pend, evs ++ [e])
    else if reconciled_by_id c t ca i then (set_rec t i RSucceeded, pend, evs ++ [(i, WSuccessful)])
    else (set_rec t i RPending, pend ++ [i], evs ++ [(i, WPending)]).

  Definition nil_b (l : list A) : bool := match l with [] => true | _ => false end.

  (* Start: a fresh context (done = false), startInner, cancelFunc if nothing
     is pending.  w.failed is not touched. *)
  Definition start (c : cond) (ids : list A) (s : state) : state * list wevent :=
    let '(t, pend, evs) := fold_left (start_one c (st_cache s)) ids (st_table s, [], []) in
    (mkState pend (st_failed s) t (st_cache s) (nil_b pend), evs).

  (* ---- StatusUpdate ---------------------------------------------------- *)
  (* the tail of StatusUpdate: cancelFunc when nothing is pending *)
  Definition finish (pend failed : list A) (t : table A) (ca : cache) (d : bool) (evs : list wevent)
    : state * list wevent :=
    (mkState pend failed t ca (d || nil_b pend), evs).

  Definition status_update (c : cond) (ids : list A) (s : state) (i : A) : state * list wevent :=
    let pend := st_pending s in
    let fl := st_failed s in
    let t := st_table s in
    let ca := st_cache s in
    let d := st_done s in
    if contains eqb pend i then
      if changed_uid t ca i then
        let '(t', e) := handle_changed_uid c t i in
        finish (remove eqb pend i) fl t' ca d [e]
      else if reconciled_by_id c t ca i then
        finish (remove eqb pend i) fl (set_rec t i RSucceeded) ca d [(i, WSuccessful)]
      else if failed_by_id ca i then
        finish (remove eqb pend i) (fl ++ [i]) (set_rec t i RFailed) ca d [(i, WFailed)]
      else finish pend fl t ca d []
    else if negb (contains eqb ids i) then (s, [])       (* return: no completion check *)
    else if skipped c t i then (s, [])                  (* return: no completion check *)
    else if contains eqb fl i then
      if changed_uid t ca i then
        let '(t', e) := handle_changed_uid c t i in
        finish pend (remove eqb fl i) t' ca d [e]
      else if reconciled_by_id c t ca i then
        finish pend (remove eqb fl i) (set_rec t i RSucceeded) ca d [(i, WSuccessful)]
      else if negb (failed_by_id ca i) then
        finish (pend ++ [i]) (remove eqb fl i) (set_rec t i RPending) ca d [(i, WPending)]
      else finish pend fl t ca d []
    else
      (* default: the object left both sets (reconciled, or replaced) *)
      if changed_uid t ca i then
        if is_current c && negb (is_reconcile eqb t i RFailed) then
          let '(t', e) := handle_changed_uid c t i in
          finish pend fl t' ca d [e]
        else finish pend fl t ca d []
      else if negb (reconciled_by_id c t ca i) then
        finish (pend ++ [i]) fl (set_rec t i RPending) ca d [(i, WPending)]
      else if is_reconcile eqb t i RFailed then
        finish pend fl (set_rec t i RSucceeded) ca d [(i, WSuccessful)]
      else finish pend fl t ca d [].

  (* ---- sendTimeoutEvents ----------------------------------------------- *)
  Definition timeout_events (s : state) : state * list wevent :=
    (mkState (st_pending s) (st_failed s)
             (fold_left (fun t i => set_rec t i RTimeout) (st_pending s) (st_table s))
             (st_cache s) true,
     map (fun i => (i, WTimeout)) (st_pending s)).

  (* ---- inputs ---------------------------------------------------------- *)
  Inductive input :=
  | Start                       (* WaitTask.Start *)
  | Update (i : A) (o : cobs)   (* runner: ResourceCache().Put(i, o); StatusUpdate(i) *)
  | Timeout                     (* the deadline of the task's context passes *)
  | Cancel.                     (* WaitTask.Cancel *)

  Definition is_start (x : input) : bool := match x with Start => true | _ => false end.

  Definition with_cache (s : state) (ca : cache) : state :=
    mkState (st_pending s) (st_failed s) (st_table s) ca (st_done s).
  Definition with_done (s : state) : state :=
    mkState (st_pending s) (st_failed s) (st_table s) (st_cache s) true.

  Definition step (c : cond) (ids : list A) (s : state) (x : input) : state * list wevent :=
    match x with
    | Start => start c ids s
    | Update i o => status_update c ids (with_cache s (cache_put (st_cache s) i o)) i
    | Timeout => if st_done s then (s, []) else timeout_events s
        (* a context that is already cancelled ignores its deadline *)
    | Cancel => (with_done s, [])
    end.

  (* the run: final state and the events of every step, in order *)
  Fixpoint run (c : cond) (ids : list A) (s : state) (l : list input) : state * list (list wevent) :=
    match l with
    | [] => (s, [])
    | x :: l' =>
        let '(s1, e) := step c ids s x in
        let '(s2, es) := run c ids s1 l' in
        (s2, e :: es)
    end.

  (* a phase: Start first, never again *)
  Definition no_start (l : list input) : bool := forallb (fun x => negb (is_start x)) l.

  (* the reconcile status recorded for i, if the table knows i *)
  Definition recorded (t : table A) (i : A) : option reconcile :=
    match lookup eqb t i with Some r => Some (r_rec r) | None => None end.

  (* the status of the last event for i in a chronological event list *)
  Fixpoint last_status (evs : list wevent) (i : A) : option wstatus :=
    match evs with
    | [] => None
    | (j, w) :: t =>
        match last_status t i with
        | Some w' => Some w'
        | None => if eqb j i then Some w else None
        end
    end.
End WaitTask.

Arguments cache_put {A}. Arguments cache_empty {A}.
Arguments mkState {A}. Arguments st_pending {A}. Arguments st_failed {A}.
Arguments st_table {A}. Arguments st_cache {A}. Arguments st_done {A}.
Arguments init {A}. Arguments set_rec {A}. Arguments match_status {A}.
Arguments reconciled_by_id {A}. Arguments skipped {A}. Arguments failed_by_id {A}.
Arguments changed_uid {A}. Arguments handle_changed_uid {A}. Arguments start_one {A}.
Arguments start {A}. Arguments finish {A}. Arguments status_update {A}.
Arguments timeout_events {A}. Arguments Start {A}. Arguments Update {A}.
Arguments Timeout {A}. Arguments Cancel {A}. Arguments is_start {A}.
Arguments with_cache {A}. Arguments with_done {A}. Arguments step {A}. Arguments run {A}.
Arguments no_start {A}. Arguments recorded {A}. Arguments last_status {A}. Arguments nil_b {A}.
