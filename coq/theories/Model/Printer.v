(* Model of BaseListPrinter.Print (pkg/print/list/base.go) instantiated with
   the JSON formatter (pkg/printers/json/formatter.go).  No proofs. *)
From Coq Require Import List Bool Arith.
From CliUtils Require Import Model.Stats.
Import ListNotations.

(* the numbers of a finished-group or summary line; timeout only for Wait *)
Record counts := mkCounts { c_count : nat; c_succ : nat; c_skip : nat; c_fail : nat;
                            c_timeout : option nat }.

(* one JSON object written to the output, reduced to the fields the property
   talks about ("timestamp", "message", "error" texts are not part of it) *)
Inductive line :=
| LValidation (ids : list nat)                      (* type=validation, objects *)
| LAct (k : akind) (id : nat) (st : astatus) (has_err : bool)
    (* type=apply|prune|delete, id, status; has_err: an "error" key is present *)
| LWait (id : nat) (st : wstatus)                   (* type=wait *)
| LStatus (id : nat) (st : kstatus)                 (* type=status *)
| LError                                            (* type=error *)
| LGroup (a : action) (finished : bool) (c : option counts)   (* type=group *)
| LSummary (a : action) (c : counts).               (* type=summary *)

Inductive result :=
| ROk            (* nil *)
| RErrEvent      (* the error carried by the error event *)
| RErrResult     (* *ResultError from the counters *)
| RErrFormat     (* an error returned by the formatter *)
| RPanic.

Definition tri_counts (t : tri) : counts :=
  mkCounts (tri_sum t) (t_succ t) (t_skip t) (t_fail t) None.
Definition quad_counts (q : quad) : counts :=
  mkCounts (quad_sum q) (q_succ q) (q_skip q) (q_fail q) (Some (q_timeout q)).

(* FormatActionGroupEvent: the numbers are added only to Finished events of
   the four counted actions *)
Definition group_line (a : action) (finished : bool) (s : stats) : line :=
  LGroup a finished
    (if finished then
       match a with
       | AcApply => Some (tri_counts (s_apply s))
       | AcPrune => Some (tri_counts (s_prune s))
       | AcDelete => Some (tri_counts (s_delete s))
       | AcWait => Some (quad_counts (s_wait s))
       | AcInventory => None
       end
     else None).

Definition tri_is0 (t : tri) : bool :=
  Nat.eqb (t_succ t) 0 && Nat.eqb (t_skip t) 0 && Nat.eqb (t_fail t) 0.
Definition quad_is0 (q : quad) : bool :=
  Nat.eqb (q_succ q) 0 && Nat.eqb (q_timeout q) 0 && Nat.eqb (q_fail q) 0 && Nat.eqb (q_skip q) 0.

(* FormatSummary: one line per action whose counters are not all zero *)
Definition summary_lines (s : stats) : list line :=
  (if tri_is0 (s_apply s) then [] else [LSummary AcApply (tri_counts (s_apply s))]) ++
  (if tri_is0 (s_prune s) then [] else [LSummary AcPrune (tri_counts (s_prune s))]) ++
  (if tri_is0 (s_delete s) then [] else [LSummary AcDelete (tri_counts (s_delete s))]) ++
  (if quad_is0 (s_wait s) then [] else [LSummary AcWait (quad_counts (s_wait s))]).

(* the loop of Print: statsCollector.Handle(e) first, then the switch *)
Fixpoint print_loop (print_status : bool) (s : stats) (es : list event) : list line * result :=
  match es with
  | [] =>
      (summary_lines s, if result_error_from_stats s then RErrResult else ROk)
  | e :: t =>
      match handle s e with
      | None => ([], RPanic)
      | Some s' =>
          let continue_with l :=
            let '(ls, r) := print_loop print_status s' t in (l ++ ls, r) in
          match e with
          | EInit _ => continue_with []
          | EError nonnil =>
              (* FormatErrorEvent calls e.Err.Error(); then `return e.ErrorEvent.Err` *)
              if nonnil then ([LError], RErrEvent) else ([], RPanic)
          | EValidation ids =>
              match ids with
              | [] => ([], RErrFormat)      (* "invalid validation event: no identifiers" *)
              | _ => continue_with [LValidation ids]
              end
          | EAct k id st he => continue_with [LAct k id st he]
          | EWait id st => continue_with [LWait id st]
          | EStatus id st => if print_status then continue_with [LStatus id st] else continue_with []
          | EGroup _ a fin => continue_with [group_line a fin s']
          end
      end
  end.

Definition print (print_status : bool) (es : list event) : list line * result :=
  print_loop print_status stats0 es.

(* ---- vocabulary for the property statements ----------------------------- *)
(* events after which nothing more is processed *)
Definition stops (e : event) : bool :=
  match e with
  | EError _ => true
  | EValidation [] => true
  | EAct _ _ StPending _ => true
  | _ => false
  end.

(* per-event well-formedness: error events carry an error, validation events
   name at least one object, actuation events are not Pending *)
Definition ev_wf (e : event) : bool :=
  match e with
  | EError nonnil => nonnil
  | EValidation [] => false
  | EAct _ _ StPending _ => false
  | _ => true
  end.

(* does the event produce a line *)
Definition prints (print_status : bool) (e : event) : bool :=
  match e with
  | EInit _ => false
  | EStatus _ _ => print_status
  | EError nonnil => nonnil
  | EValidation [] => false
  | EAct _ _ StPending _ => false
  | _ => true
  end.

Definition is_act (k : akind) (st : astatus) (e : event) : bool :=
  match e with
  | EAct k' _ st' _ =>
      match k, k' with KApply, KApply | KPrune, KPrune | KDelete, KDelete => true | _, _ => false end
      && match st, st' with
         | StPending, StPending | StSuccessful, StSuccessful
         | StSkipped, StSkipped | StFailed, StFailed => true
         | _, _ => false end
  | _ => false
  end.
Definition is_wait (st : wstatus) (e : event) : bool :=
  match e with
  | EWait _ st' =>
      match st, st' with
      | WPending, WPending | WSuccessful, WSuccessful | WSkipped, WSkipped
      | WTimeout, WTimeout | WFailed, WFailed => true
      | _, _ => false end
  | _ => false
  end.
Definition occ (f : event -> bool) (es : list event) : nat := List.length (filter f es).

(* the numbers an action's line must show after the events es *)
Definition act_counts (k : akind) (es : list event) : counts :=
  mkCounts (occ (is_act k StSuccessful) es + occ (is_act k StSkipped) es + occ (is_act k StFailed) es)
           (occ (is_act k StSuccessful) es) (occ (is_act k StSkipped) es) (occ (is_act k StFailed) es)
           None.
Definition wait_counts (es : list event) : counts :=
  mkCounts (occ (is_wait WSuccessful) es + occ (is_wait WSkipped) es
            + occ (is_wait WFailed) es + occ (is_wait WTimeout) es)
           (occ (is_wait WSuccessful) es) (occ (is_wait WSkipped) es) (occ (is_wait WFailed) es)
           (Some (occ (is_wait WTimeout) es)).
Definition counts_after (a : action) (es : list event) : option counts :=
  match a with
  | AcApply => Some (act_counts KApply es)
  | AcPrune => Some (act_counts KPrune es)
  | AcDelete => Some (act_counts KDelete es)
  | AcWait => Some (wait_counts es)
  | AcInventory => None
  end.

(* the line an event must produce, given the events before it *)
Definition line_for (before : list event) (e : event) : line :=
  match e with
  | EValidation ids => LValidation ids
  | EAct k id st he => LAct k id st he
  | EWait id st => LWait id st
  | EStatus id st => LStatus id st
  | EGroup _ a fin => LGroup a fin (if fin then counts_after a before else None)
  | _ => LError
  end.

Definition is_failure (e : event) : bool :=
  match e with
  | EAct _ _ StFailed _ => true
  | EWait _ WFailed | EWait _ WTimeout => true
  | _ => false
  end.
Definition is_error_event (e : event) : bool := match e with EError _ => true | _ => false end.

Definition counts_is0 (c : counts) : bool :=
  Nat.eqb (c_succ c) 0 && Nat.eqb (c_skip c) 0 && Nat.eqb (c_fail c) 0
  && match c_timeout c with Some t => Nat.eqb t 0 | None => true end.

Definition summary_for (es : list event) : list line :=
  flat_map (fun a => match counts_after a es with
                     | Some c => if counts_is0 c then [] else [LSummary a c]
                     | None => [] end)
           [AcApply; AcPrune; AcDelete; AcWait].

(* the events that are looked at: up to and including the first stopping one *)
Fixpoint processed (es : list event) : list event :=
  match es with
  | [] => []
  | e :: t => e :: (if stops e then [] else processed t)
  end.
Definition has_stop (es : list event) : bool := existsb stops es.

(* lines for the events es, given the events before them *)
Fixpoint body_spec (print_status : bool) (before es : list event) : list line :=
  match es with
  | [] => []
  | e :: t =>
      (if prints print_status e then [line_for before e] else []) ++
      (if stops e then [] else body_spec print_status (before ++ [e]) t)
  end.

Fixpoint result_spec (before es : list event) : result :=
  match es with
  | [] => if existsb is_failure before then RErrResult else ROk
  | e :: t =>
      match e with
      | EError true => RErrEvent
      | EError false => RPanic
      | EValidation [] => RErrFormat
      | EAct _ _ StPending _ => RPanic
      | _ => result_spec (before ++ [e]) t
      end
  end.

(* a line identifies the same object(s), action and status as the event *)
Definition line_matches (e : event) (l : line) : Prop :=
  match e with
  | EAct k id st he => l = LAct k id st he
  | EWait id st => l = LWait id st
  | EStatus id st => l = LStatus id st
  | EValidation ids => l = LValidation ids
  | EError _ => l = LError
  | EGroup _ a fin => exists c, l = LGroup a fin c
  | EInit _ => False
  end.
