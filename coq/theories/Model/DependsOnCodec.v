(* Model of pkg/object/dependson/strings.go as of the fix "depends-on references
   that would not read back are rejected" (FormatObjMetadata,
   ParseObjMetadata, FormatDependencySet, ParseDependencySet) and
   annotation.go (ReadAnnotation / WriteAnnotation).  No proofs here. *)
From Coq Require Import List Bool Arith String Ascii.
From CliUtils Require Import Base.Strings Model.IdCodec.
Import ListNotations.
Local Open Scope string_scope.

Definition annotation_separator := ",".
Definition dep_field_separator := "/".
Definition namespaces_field := "namespaces".

(* the two layouts *)
Definition dep_string (i : oid) : string :=
  if String.eqb (o_ns i) ""
  then o_grp i ++ "/" ++ o_knd i ++ "/" ++ o_name i
  else o_grp i ++ "/namespaces/" ++ o_ns i ++ "/" ++ o_knd i ++ "/" ++ o_name i.

(* ParseObjMetadata: TrimSpace, Split on "/", 3 or 5 fields, the second of
   five must be "namespaces"; kind and name may not be empty, nor the
   namespace segment of the five-field form. *)
Definition parse_dep (s : string) : result oid :=
  match split dep_field_separator (trim_space s) with
  | [g; k; n] =>
      if String.eqb k "" || String.eqb n "" then Err else Ok (mkOid "" n g k)
  | [g; nsf; ns; k; n] =>
      if String.eqb nsf namespaces_field
      then if String.eqb k "" || String.eqb n "" || String.eqb ns "" then Err
           else Ok (mkOid ns n g k)
      else Err
  | _ => Err
  end.

(* FormatObjMetadata: kind and name must not be empty; the formatted string
   must not contain the set separator and must parse back to the same id *)
Definition format_dep (i : oid) : result string :=
  if String.eqb (o_knd i) "" then Err
  else if String.eqb (o_name i) "" then Err
  else
    let s := dep_string i in
    if contains annotation_separator s then Err
    else match parse_dep s with
         | Ok j => if oid_eqb j i then Ok s else Err
         | Err => Err
         end.

Fixpoint format_all (l : list oid) : result (list string) :=
  match l with
  | [] => Ok []
  | i :: t =>
      match format_dep i with
      | Err => Err
      | Ok s => match format_all t with Err => Err | Ok ss => Ok (s :: ss) end
      end
  end.

(* FormatDependencySet: references joined by "," *)
Definition format_dep_set (l : list oid) : result string :=
  match format_all l with
  | Err => Err
  | Ok ss => Ok (join annotation_separator ss)
  end.

Fixpoint parse_all (ss : list string) : result (list oid) :=
  match ss with
  | [] => Ok []
  | s :: t =>
      match parse_dep s with
      | Err => Err
      | Ok i => match parse_all t with Err => Err | Ok l => Ok (i :: l) end
      end
  end.

(* ParseDependencySet: Split on ",", every piece must parse *)
Definition parse_dep_set (s : string) : result (list oid) :=
  parse_all (split annotation_separator s).

(* WriteAnnotation on a non-nil object: the annotation value, or an error
   for the empty set / an unformattable reference *)
Definition write_annotation (l : list oid) : result string :=
  match l with
  | [] => Err
  | _ => format_dep_set l
  end.

(* ReadAnnotation: no annotation = empty set *)
Definition read_annotation (a : option string) : result (list oid) :=
  match a with
  | None => Ok []
  | Some s => parse_dep_set s
  end.

(* ---- well-formedness used by the theorems --------------------------------- *)
Definition no_slash (s : string) : bool := negb (contains "/" s).
Definition no_comma (s : string) : bool := negb (contains "," s).
Definition nonempty (s : string) : bool := negb (String.eqb s "").

(* what Format/Parse of one reference needs of the fields *)
Definition dep_fields_ok (i : oid) : bool :=
  nonempty (o_knd i) && nonempty (o_name i)
  && no_slash (o_grp i) && no_slash (o_ns i) && no_slash (o_knd i) && no_slash (o_name i).

(* additionally for a reference inside a comma separated set *)
Definition dep_no_comma (i : oid) : bool :=
  no_comma (o_grp i) && no_comma (o_ns i) && no_comma (o_knd i) && no_comma (o_name i).
