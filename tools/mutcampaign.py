#!/usr/bin/env python3
"""mutcampaign.py: systematic single-point mutation campaign against the checks.

  tools/mutcampaign.py --wt /var/tmp/wt --verif /var/tmp/verif_copy --out notes/mutants/X.tsv \
      --tests ./pkg/kstatus/... --checks C07,C08 [--max N] [--start K] file.go [file.go ...]

For every mutation point of every file (tools/gomutate): write the mutant into the scratch worktree
<wt> of /repo, build, run the repository's own tests of <tests> (a mutant they kill is uninteresting),
and for the survivors run the checks of <verif> in scratch-tree mode. One TSV line per mutant:
file, index, line, operator, description, verdict (nocompile | killed-by-tests | caught:<ids> | MISSED).
The worktree file is restored after each mutant. Never touches /repo or /verif themselves
(<verif> should be a private copy when other work goes on in /verif)."""
import argparse, os, subprocess, sys, time

ENV = dict(os.environ, GOFLAGS="-mod=mod", GOPROXY="off", GOSUMDB="off", GOTOOLCHAIN="local")
MUT = os.path.join(os.path.dirname(os.path.abspath(__file__)), "gomutate", "gomutate")


def sh(cmd, cwd=None, env=None, timeout=1800):
    try:
        p = subprocess.run(cmd, cwd=cwd, env=env or ENV, stdout=subprocess.PIPE, stderr=subprocess.STDOUT,
                           timeout=timeout, text=True)
        return p.returncode, p.stdout
    except subprocess.TimeoutExpired as e:
        return 124, (e.stdout or "") if isinstance(e.stdout, str) else ""


def main():
    ap = argparse.ArgumentParser()
    ap.add_argument("--wt", required=True)
    ap.add_argument("--verif", default="/verif")
    ap.add_argument("--out", required=True)
    ap.add_argument("--tests", required=True, help="space separated go packages whose tests must pass")
    ap.add_argument("--checks", required=True, help="comma separated property ids")
    ap.add_argument("--max", type=int, default=0)
    ap.add_argument("--start", type=int, default=0)
    ap.add_argument("--ops", default="", help="comma separated operator names to keep (default all)")
    ap.add_argument("files", nargs="+")
    a = ap.parse_args()
    checks = a.checks.split(",")
    ops = set(a.ops.split(",")) if a.ops else None
    os.makedirs(os.path.dirname(os.path.abspath(a.out)), exist_ok=True)
    done = set()
    if os.path.exists(a.out):
        for l in open(a.out):
            f = l.split("\t")
            if len(f) >= 2:
                done.add((f[0], f[1]))
    out = open(a.out, "a")
    n = 0
    for rel in a.files:
        path = os.path.join(a.wt, rel)
        orig = open(path).read()
        rc, lst = sh([MUT, "-list", path])
        pts = [l.split("\t") for l in lst.strip().splitlines() if l.strip()]
        for idx, line, op, desc in pts:
            if int(idx) < a.start or (ops and op not in ops) or (rel, idx) in done:
                continue
            if a.max and n >= a.max:
                break
            n += 1
            t0 = time.time()
            rc, src = sh([MUT, "-apply", idx, path])
            verdict = ""
            try:
                if rc != 0:
                    verdict = "nomutant"
                else:
                    open(path, "w").write(src)
                    pkgdir = "./" + os.path.dirname(rel) + "/..."
                    rc, o = sh(["go", "build", "./pkg/...", "./cmd/..."], cwd=a.wt, timeout=900)
                    if rc != 0:
                        verdict = "nocompile"
                    else:
                        rc, o = sh(["go", "test", "-count=1", "-timeout", "600s"] + a.tests.split(), cwd=a.wt, timeout=900)
                        if rc != 0:
                            verdict = "killed-by-tests"
                        else:
                            caught = []
                            for c in checks:
                                rc, o = sh([os.path.join(a.verif, "bin", "check"), c], cwd=a.verif,
                                           env=dict(ENV, VERIF_REPO=a.wt), timeout=2400)
                                if "VIOLATION property=" + c in o:
                                    caught.append(c + ("~" if "no-failing-input-found" in o else ""))
                                elif (c + " quick:") not in o and (c + " thorough:") not in o:
                                    caught.append(c + "!checkerror")  # the check itself did not finish: not a verdict
                            verdict = "caught:" + ",".join(caught) if caught else "MISSED"
            finally:
                open(path, "w").write(orig)
            out.write("\t".join([rel, idx, line, op, desc, verdict, "%.0fs" % (time.time() - t0)]) + "\n")
            out.flush()
            print(rel, idx, line, op, desc, verdict, flush=True)


if __name__ == "__main__":
    main()
