#!/bin/bash
# mut.sh name old new : does the C01 proof break when the model is mutated?
T=${T:-/tmp/mutC01}
rm -rf $T; mkdir -p $T; cp -r /verif/coq/theories/{Model,Corr,Proofs,Properties,Base} $T/ 2>/dev/null
find $T -name '*.vo*' -delete; find $T -name '*.glob' -delete
python3 - "$T/Model/Pipeline.v" "$2" "$3" <<'PY'
import sys
p,old,new=sys.argv[1:4]
s=open(p).read()
assert s.count(old)>=1, "pattern not found: "+old
open(p,'w').write(s.replace(old,new,1))
PY
cd $T
for f in Model/ObjSet Model/ActuationTable Model/PipelineTypes Model/Pipeline Corr/CorrLib Corr/CorrPipeline Proofs/ObjSetProofs Proofs/ActuationTableProofs Proofs/PipelineBase Proofs/PipelineAuth Proofs/PipelineOrphansBase Proofs/PipelineOrphansSpec Proofs/PipelineOrphansInv Proofs/PipelineOrphansPlan Proofs/PipelineOrphansRun Properties/C01; do
  timeout 300 coqc -Q . CliUtils -w -notation-overridden,-deprecated $f.v >/dev/null 2>$T/err || { echo "$1: proof breaks at $f: $(grep -m1 -A1 'Error' $T/err | tr '\n' ' ' | cut -c1-160)"; exit 0; }
done
echo "$1: PROOF STILL PASSES"
