#!/bin/bash
# Sensitivity test of the monitors: mutate the MODEL and check that the monitors notice
# (model-only, uses tools/modelfuzz.py). usage: model_mutants.sh
set -u
T=/tmp/mut_theories
run() { # name, sed-expression on Pipeline.v
  rm -rf $T; mkdir -p $T; cp -r /verif/coq/theories/{Model,Corr} $T/; find $T -name '*.vo*' -delete; find $T -name '*.glob' -delete
  python3 - "$T/Model/Pipeline.v" "$2" "$3" <<'PY'
import sys
p,old,new=sys.argv[1:4]
s=open(p).read()
assert s.count(old)>=1, "pattern not found: "+old
open(p,'w').write(s.replace(old,new,1))
PY
  ( cd $T && for f in Model/ObjSet Model/ActuationTable Model/PipelineTypes Model/Pipeline Corr/CorrLib Corr/CorrPipeline; do coqc -Q . CliUtils $f.v >/dev/null 2>$T/err || { echo "$1: COMPILE ERROR"; cat $T/err | head -5; exit 1; }; done ) || return
  fails=$(for s in 1 2 3; do THEORIES=$T python3 /verif/tools/modelfuzz.py $s 300 | grep "^case"; done | grep -o "C[0-9][0-9]" | sort | uniq -c | tr '\n' ' ')
  echo "$1: monitors failing: ${fails:-NONE}"
}
run M1-drop-failed-apply-retention 'let a1 := unionn a0 (intern prev (with_actuation t SApply AFailed)) in' 'let a1 := a0 in'
run M2-destroy-always-successful '    | [], [], [] =>
        match diffn (with_actuation t SDelete ASkipped) (r_aband s), intern prev (pl_invalid pl) with
        | [], [] => true
        | _, _ => false
        end' '    | [], [], [] => true'
run M3-ignore-keep '    if c_keep c then PSkipKeep
    else if negb' '    if negb'
run M4-skipped-dep-passes '        | ASkipped | AFailed => FSkip' '        | ASkipped | AFailed => FPass'
run M5-client-dry-sends '          if dryrun then (s1, Some 0%N) else
          let s2' '          let s2'
run M6-ignore-abort '        else if r_abort s1 then ev s1 EError' '        else if false then ev s1 EError'
run M7-invalid-applied '    let applyV := filter (fun p => negb (memn (p_id p) invalid)) applyA in' '    let applyV := applyA in'
run M8-prune-not-reversed '(rev (map (fun l => rev l) (hydrate layers pruneV)))' '(hydrate layers pruneV)'
run M9-noprune-forgets 'then fold_left (fun s p => rec_add s (p_id p) SDelete ASkipped 0%N 0%Z) (pl_prune_all pl) s2' 'then s2'
run M10-reconcile-gate-off '            | RSkipped | RFailed | RTimeout => FSkip' '            | RSkipped | RFailed | RTimeout => FPass'
run M11-delete-no-precondition 'RDelete i (c_uid c) (o_prop o)) true' 'RDelete i 0%N (o_prop o)) true'
run M12-merge-after-apply-missing 'if ok1 then merge s1 ids else (s1, false)' '(s1, ok1)'
