module gomutate

go 1.22
