// gomutate: single-point source mutations of one Go file (stdlib only).
//
//	gomutate -list file.go            prints "<index>\t<line>\t<operator>\t<description>" for every mutation point
//	gomutate -apply N file.go > out   prints the file with mutation N applied
//
// Operators: binary operator swaps (== != < <= > >= && || + -), negated if / for conditions,
// deleted expression / assignment / inc-dec statements, deleted `continue` / `break` / bare `return`,
// integer literals n -> n+1 (and 1 -> 0), boolean identifiers true <-> false, dropped else branches,
// `return ..., err` -> `return ..., nil` for a trailing identifier named err.
package main

import (
	"flag"
	"fmt"
	"go/ast"
	"go/format"
	"go/parser"
	"go/token"
	"os"
	"strconv"
)

type point struct {
	line int
	op   string
	desc string
	do   func()
}

var swaps = map[token.Token][]token.Token{
	token.EQL: {token.NEQ}, token.NEQ: {token.EQL},
	token.LSS: {token.LEQ, token.GTR}, token.LEQ: {token.LSS}, token.GTR: {token.GEQ, token.LSS}, token.GEQ: {token.GTR},
	token.LAND: {token.LOR}, token.LOR: {token.LAND},
	token.ADD: {token.SUB}, token.SUB: {token.ADD},
}

func collect(fset *token.FileSet, f *ast.File) []point {
	var pts []point
	add := func(pos token.Pos, op, desc string, do func()) {
		pts = append(pts, point{fset.Position(pos).Line, op, desc, do})
	}
	// statement lists: deletion of simple statements
	var visitList func(list *[]ast.Stmt)
	visitList = func(list *[]ast.Stmt) {
		for i := range *list {
			i := i
			st := (*list)[i]
			del := func(kind string) {
				add(st.Pos(), "del-"+kind, "delete statement", func() {
					(*list)[i] = &ast.EmptyStmt{Semicolon: st.Pos(), Implicit: false}
				})
			}
			switch s := st.(type) {
			case *ast.ExprStmt:
				if call, ok := s.X.(*ast.CallExpr); ok {
					// keep klog / log lines: deleting them is always equivalent
					if sel, ok := call.Fun.(*ast.SelectorExpr); ok {
						if id, ok := sel.X.(*ast.Ident); ok && (id.Name == "klog" || id.Name == "log") {
							continue
						}
						if c2, ok := sel.X.(*ast.CallExpr); ok {
							if s2, ok := c2.Fun.(*ast.SelectorExpr); ok {
								if id, ok := s2.X.(*ast.Ident); ok && id.Name == "klog" {
									continue
								}
							}
						}
					}
				}
				del("call")
			case *ast.AssignStmt:
				if s.Tok != token.DEFINE {
					del("assign")
				}
			case *ast.IncDecStmt:
				del("incdec")
			case *ast.BranchStmt:
				if s.Tok == token.CONTINUE || s.Tok == token.BREAK {
					del(s.Tok.String())
				}
			case *ast.ReturnStmt:
				if len(s.Results) == 0 {
					del("return")
				}
			case *ast.DeferStmt:
				del("defer")
			}
		}
	}
	ast.Inspect(f, func(n ast.Node) bool {
		switch x := n.(type) {
		case *ast.BlockStmt:
			visitList(&x.List)
		case *ast.CaseClause:
			visitList(&x.Body)
		case *ast.CommClause:
			visitList(&x.Body)
		case *ast.BinaryExpr:
			for _, to := range swaps[x.Op] {
				from, to := x.Op, to
				add(x.OpPos, "binop", from.String()+" -> "+to.String(), func() { x.Op = to })
			}
		case *ast.IfStmt:
			// a single == / != comparison is already negated by the operator swap
			if be, ok := x.Cond.(*ast.BinaryExpr); !ok || (be.Op != token.EQL && be.Op != token.NEQ) {
				add(x.Cond.Pos(), "neg-if", "negate if condition", func() {
					x.Cond = &ast.UnaryExpr{Op: token.NOT, X: &ast.ParenExpr{X: x.Cond}}
				})
			}
			if x.Else != nil {
				add(x.Else.Pos(), "drop-else", "drop else branch", func() { x.Else = nil })
			}
		case *ast.ForStmt:
			if x.Cond != nil {
				add(x.Cond.Pos(), "neg-for", "negate loop condition", func() {
					x.Cond = &ast.UnaryExpr{Op: token.NOT, X: &ast.ParenExpr{X: x.Cond}}
				})
			}
		case *ast.BasicLit:
			if x.Kind == token.INT {
				if v, err := strconv.ParseInt(x.Value, 0, 64); err == nil {
					add(x.Pos(), "int", fmt.Sprintf("%d -> %d", v, v+1), func() { x.Value = strconv.FormatInt(v+1, 10) })
					if v == 1 {
						add(x.Pos(), "int", "1 -> 0", func() { x.Value = "0" })
					}
				}
			}
		case *ast.Ident:
			if x.Name == "true" && x.Obj == nil {
				add(x.Pos(), "bool", "true -> false", func() { x.Name = "false" })
			} else if x.Name == "false" && x.Obj == nil {
				add(x.Pos(), "bool", "false -> true", func() { x.Name = "true" })
			}
		case *ast.ReturnStmt:
			if n := len(x.Results); n >= 1 {
				if id, ok := x.Results[n-1].(*ast.Ident); ok && id.Name == "err" {
					add(id.Pos(), "ret-nil", "return ..., err -> nil", func() { x.Results[n-1] = ast.NewIdent("nil") })
				}
			}
		}
		return true
	})
	return pts
}

func main() {
	list := flag.Bool("list", false, "list mutation points")
	apply := flag.Int("apply", -1, "apply mutation N")
	flag.Parse()
	if flag.NArg() != 1 {
		fmt.Fprintln(os.Stderr, "usage: gomutate (-list | -apply N) file.go")
		os.Exit(2)
	}
	fset := token.NewFileSet()
	f, err := parser.ParseFile(fset, flag.Arg(0), nil, parser.ParseComments)
	if err != nil {
		fmt.Fprintln(os.Stderr, err)
		os.Exit(2)
	}
	pts := collect(fset, f)
	if *list {
		for i, p := range pts {
			fmt.Printf("%d\t%d\t%s\t%s\n", i, p.line, p.op, p.desc)
		}
		return
	}
	if *apply < 0 || *apply >= len(pts) {
		fmt.Fprintln(os.Stderr, "no such mutation")
		os.Exit(2)
	}
	pts[*apply].do()
	if err := format.Node(os.Stdout, fset, f); err != nil {
		fmt.Fprintln(os.Stderr, err)
		os.Exit(2)
	}
}
