#!/bin/bash
# try_seed.sh <PROPERTY> <worktree> [check ids...]: confirm a seeded change (patch + demo) and run our checks against it
# in scratch-tree mode (VERIF_REPO=<worktree>), then store it under /verif/seeded/<PROPERTY>/.
set -u
export GOFLAGS=-mod=mod GOPROXY=off GOSUMDB=off GOTOOLCHAIN=local
P=$1; WT=$2; shift 2; CHECKS=${@:-$P}
OUT=$WT/seed_out
cd $WT || exit 2
git checkout -q -- . 2>/dev/null
DEMO=$(git status --short | grep '^??' | grep -v seed_out | awk '{print $2}' | tr '\n' ' ')
echo "demo files: $DEMO"
demo_pkgs=$(for f in $DEMO; do d=$(dirname $f); echo ./$d; done | sort -u | tr '\n' ' ')
echo "--- demo WITHOUT change (must pass)"
go test -count=1 -run 'Seed|seed|Demo|demo' $demo_pkgs 2>&1 | tail -3
git apply $OUT/patch.diff || { echo "patch does not apply"; exit 2; }
echo "--- build with change"; go build ./... 2>&1 | tail -3
echo "--- demo WITH change (must fail)"
go test -count=1 -run 'Seed|seed|Demo|demo' $demo_pkgs 2>&1 | tail -4
# hide the demo test files from our harness build (they are test files: not compiled into the library)
for c in $CHECKS; do
  echo "--- our check $c against the change"
  (cd /verif && VERIF_REPO=$WT timeout 1800 bin/check $c 2>&1 | tail -4)
done
git checkout -q -- .
mkdir -p /verif/seeded/${SEEDNAME:-$P}
cp $OUT/patch.diff $OUT/meta.json /verif/seeded/${SEEDNAME:-$P}/ 2>/dev/null
for f in $DEMO; do cp $f /verif/seeded/${SEEDNAME:-$P}/; done
echo "stored in /verif/seeded/${SEEDNAME:-$P}"
