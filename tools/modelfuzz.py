#!/usr/bin/env python3
"""Model-only fuzzing of the pipeline model against its monitors (a test of the
theorem statements before proving them; not part of any check).
usage: modelfuzz.py [seed] [n]"""
import random, subprocess, sys, os, re
seed = int(sys.argv[1]) if len(sys.argv) > 1 else 1
n = int(sys.argv[2]) if len(sys.argv) > 2 else 300
R = random.Random(seed)
UNIV = "[mkU KNs None None; mkU KNs None None; mkU KPlain (Some 0) None; mkU KPlain (Some 1) None; mkU KPlain (Some 1) None; mkU KPlain None None; mkU KPlain None None; mkU KNs None None]"
NID = 8
def b(x): return "true" if x else "false"
def nl(l): return "[" + "; ".join(str(x) for x in l) + "]"
def gen():
    # cluster
    objs = []
    exist = [i for i in range(NID - 1) if R.random() < 0.5]
    uid = 10
    tracked = []
    for i in exist:
        owner = R.choice(["OOurs", "OOurs", "OOurs", "ONone", "OOther"])
        keep = R.random() < 0.2
        deps = [d for d in exist if d != i and R.random() < 0.15]
        bad = R.random() < 0.05
        objs.append("mkC %d %d%%N %s %s %s %s %d %s" % (i, uid, owner, b(keep), nl(deps), b(bad), R.randint(1, 2), R.choice(["None", "None", "(Some (mkLA OOurs false [] false 1))", "(Some (mkLA OOurs true [] false 2))"])))
        uid += 1
        if (owner == "OOurs" and R.random() < 0.9) or R.random() < 0.2:
            tracked.append(i)
    if R.random() < 0.2:
        tracked += [i for i in range(NID - 1) if i not in exist and R.random() < 0.3]
    inv = "None" if (not tracked and R.random() < 0.7) else "(Some %s)" % nl(tracked)
    if inv != "None" and 0 not in exist:   # WF: the inventory object lives in namespace 0, which must exist then
        objs.append("mkC 0 %d%%N %s false [] false 1 None" % (uid, R.choice(["OOurs", "ONone"])))
        uid += 1
    c0 = "mkCl [%s] %s %d%%N" % ("; ".join(objs), inv, uid + 5)
    destroy = R.random() < 0.25
    locs = []
    lids = [i for i in range(NID) if R.random() < 0.5]
    for i in lids:
        deps = [d for d in range(NID) if d != i and R.random() < (0.2 if d in lids else 0.03)]
        if R.random() < 0.05 and deps: deps.append(deps[0])
        locs.append("mkL %d %s %s %s %s %d" % (i, nl(deps), b(R.random() < 0.04), b(i == 7 or R.random() < 0.04), b(R.random() < 0.1), R.randint(1, 2)))
    dry = R.choice(["DNone"] * 4 + ["DClient", "DServer"])
    opts = "mkO %s %s %s %s %s %s %s %s %s %s %s" % (
        b(destroy), b(destroy or R.random() < 0.8), R.choice(["PMustMatch", "PAdoptIfNoInventory", "PAdoptAll"]), dry,
        R.choice(["VExitEarly", "VSkipInvalid", "VSkipInvalid"]), b(R.random() < 0.2), b(R.random() < 0.5), b(R.random() < 0.5),
        b(R.random() < 0.3), R.choice(["PropBackground", "PropForeground", "PropOrphan"]), b(R.random() < 0.15))
    waits = []
    for k in range(8):
        ds = []
        for _ in range(R.randint(0, 5)):
            i = R.randrange(NID)
            ds.append("mkS %d %s %s %d%%N %d%%Z" % (i, R.choice(["SCurrent", "SCurrent", "SCurrent", "SNotFound", "SNotFound", "SInProgress", "SFailed", "STerminating", "SUnknown"]),
                                                     b(R.random() < 0.8), R.choice([0, 10 + i, 10 + i, 10 + i, 99, 30 + i]), R.choice([1, 2, 2, 3])))
        mode = R.random()
        if mode < 0.5:  # everything reconciles
            ds += ["mkS %d SCurrent true 0%%N 2%%Z" % i for i in range(NID)] + ["mkS %d SNotFound false 0%%N 0%%Z" % i for i in range(NID)]
            R.shuffle(ds)
        waits.append("mkW [%s] %s" % ("; ".join(ds), R.choice(["WTimeout", "WTimeout", "WCancel"])))
    faults = []
    for _ in range(R.choice([0, 0, 0, 1, 1, 2])):
        k = R.randrange(9)
        i = R.randrange(NID)
        faults.append(["FInvList %d" % R.randrange(6), "FInvGet %d" % R.randrange(2), "FInvWrite %d" % R.randrange(3), "FInvDelete", "FNsCreate",
                       "FGet %d %d" % (i, R.randrange(3)), "FApply %d" % i, "FUpdate %d" % i, "FDelete %d" % i][k])
    cancel = R.choice(["CNever"] * 6 + ["CBeforeSync", "(CDuringReq %d)" % R.randrange(NID)])
    werr = "None" if R.random() < 0.9 else "(Some %d)" % R.randrange(3)
    env = "mkE [%s] [%s] %s %s" % ("; ".join(faults), "; ".join(waits), cancel, werr)
    sc = "mkSc univ (Some 0) [%s] (%s) (%s)" % ("; ".join(locs), opts, env)
    return "((%s), (%s))" % (c0, sc)
cases = [gen() for _ in range(n)]
src = """From Coq Require Import List NArith ZArith Bool. Import ListNotations.
From CliUtils Require Import Model.PipelineTypes Model.Pipeline Corr.CorrPipeline.
Definition univ := %s.
Definition cases : list (cluster * scenario) := [
%s
].
Fixpoint idx {A} (n : nat) (l : list A) := match l with [] => [] | x :: t => (n, x) :: idx (S n) t end.
Definition res := Eval vm_compute in
  flat_map (fun p => let '(k, (c, sc)) := p in
     let out := run sc c in
     let ms := mon_all sc c out in
     (* second run from the final state: histories *)
     let out2 := run sc (out_final out) in
     let ms2 := mon_all sc (out_final out) out2 in
     if forallb (fun x => x) (ms ++ ms2) then [] else [(k, ms, ms2)]) (idx 0 cases).
Print res.
""" % (UNIV, ";\n".join(cases))
d = "/tmp/modelfuzz_%d" % seed
os.makedirs(d, exist_ok=True)
open(d + "/f.v", "w").write(src)
p = subprocess.run(["coqc", "-Q", os.environ.get("THEORIES", "/verif/coq/theories"), "CliUtils", "f.v"], cwd=d, capture_output=True, text=True)
out = p.stdout + p.stderr
NAMES = ["C01", "C02", "C03", "C04", "C05", "C10", "C11", "C12", "C13", "C04obs"]
if "Error" in out: print(out[-2000:])
flat = " ".join(out.split())
for m in re.finditer(r"\((\d+), \[([a-z; ]+)\], \[([a-z; ]+)\]\)", flat):
    f1 = [NAMES[i] for i, v in enumerate(m.group(2).split("; ")) if v == "false"]
    f2 = [NAMES[i] for i, v in enumerate(m.group(3).split("; ")) if v == "false"]
    print("case", m.group(1), "run1 fails", f1, "run2 fails", f2)
    if len(sys.argv) > 3 and sys.argv[3] == m.group(1):
        print(re.sub(r"mkW \[[^\]]*\] W\w+", "mkW..", cases[int(m.group(1))]))
print("done", n)
