#!/usr/bin/env python3
"""Model-only fuzzing of the pipeline model against its monitors (a test of the
theorem statements before proving them; not part of any check).
usage: modelfuzz.py [seed] [n] [case-to-print]
env: THEORIES (default: the coq/theories of the tree this script lives in),
     FIN_P (probability that a universe entry is finalizer-held, default 0.3),
     FIN_CLAUSE = full | nf | none : which part of the finalizer clause of WF the generated deliveries respect
       (full: no NotFound and no foreign UID for a finalizer-held object; nf: no NotFound only; none: unrestricted),
     FIN_WF = full (default) | nf | none : which part of the finalizer clause the boolean WF filter checks.
     MUT_P (default 0.4): probability that a manifest with references spells them as apply-time-mutation
       substitutions (l_mut: the source lookup of the mutator — resource cache, else a GET — runs before kubectl apply),
     GCUR_P (default 0.7): probability that kstatus computes Current for an object read by that GET (u_gcur).
   Only runs whose (scenario, cluster) satisfy the boolean WF and kf_freeb are reported."""
import random, subprocess, sys, os, re
seed = int(sys.argv[1]) if len(sys.argv) > 1 else 1
n = int(sys.argv[2]) if len(sys.argv) > 2 else 300
R = random.Random(seed)
# (kind, namespace object, CRD object): two namespaces, two CRDs, a built-in object, three custom resources, a namespace
UKINDS = [("KNs", "None", "None"), ("KNs", "None", "None"), ("KCrd", "None", "None"), ("KCrd", "None", "None"),
          ("KPlain", "(Some 0)", "None"), ("KPlain", "(Some 1)", "(Some 2)"), ("KPlain", "None", "(Some 3)"),
          ("KPlain", "(Some 0)", "(Some 2)"), ("KApiSvc", "None", "None"), ("KApiSvc", "None", "None"), ("KNs", "None", "None")]
CRD_OF = {5: 2, 6: 3, 7: 2}
APISVC = [8, 9]   # apiregistration.k8s.io APIService entries: the client-side fallback after a stream error (APISVC_P: stream fault probability)
APISVC_P = float(os.environ.get("APISVC_P", "0.5"))
NID = 11
# DYN_WF = wf (default): the official wf_b (its clause 8: a TRACKED custom resource of the cluster has its CRD in the cluster);
# DYN_WF = crd: additionally every custom resource of the cluster has its CRD in the cluster
DYN_WF = os.environ.get("DYN_WF", "wf")
FIN_P = float(os.environ.get("FIN_P", "0.3"))
MUT_P = float(os.environ.get("MUT_P", "0.4"))
GCUR_P = float(os.environ.get("GCUR_P", "0.7"))
FIN_CLAUSE = os.environ.get("FIN_CLAUSE", "full")
FIN_WF = os.environ.get("FIN_WF", "full")
HERE = os.path.dirname(os.path.realpath(__file__))
THEORIES = os.environ.get("THEORIES", os.path.join(HERE, "..", "coq", "theories"))
def b(x): return "true" if x else "false"
def nl(l): return "[" + "; ".join(str(x) for x in l) + "]"
def gen():
    # universe: ~FIN_P of the entries are held by a finalizer
    fin = [R.random() < FIN_P for _ in range(NID)]
    focus = R.random() < 0.4     # prune-heavy profile: many tracked objects leave the apply set, no dry-run, few faults
    univ = "[" + "; ".join("mkUF %s %s %s %s %s" % (k, ns, crd, b(f), b(R.random() < GCUR_P)) for (k, ns, crd), f in zip(UKINDS, fin)) + "]"
    # cluster
    uid_of = {}
    objs = []
    exist = [i for i in range(NID - 1) if R.random() < 0.5]
    if R.random() < 0.8:   # mostly: a custom resource exists only with its CRD (a real server guarantees it)
        exist = [i for i in exist if i not in CRD_OF or CRD_OF[i] in exist]
    uid = 10
    tracked = []
    for i in exist:
        owner = "OOurs" if (focus and R.random() < 0.7) else R.choice(["OOurs", "OOurs", "OOurs", "ONone", "OOther"])
        keep = R.random() < 0.2
        deps = [d for d in exist if d != i and R.random() < 0.15]
        bad = R.random() < 0.05
        objs.append("mkC %d %d%%N %s %s %s %s %d %s" % (i, uid, owner, b(keep), nl(deps), b(bad), R.randint(1, 2), R.choice(["None", "None", "(Some (mkLA OOurs false [] false 1))", "(Some (mkLA OOurs true [] false 2))"])))
        uid_of[i] = uid
        uid += 1
        if (owner == "OOurs" and R.random() < 0.9) or R.random() < 0.2:
            tracked.append(i)
    if R.random() < 0.2:
        tracked += [i for i in range(NID - 1) if i not in exist and R.random() < 0.3]
    inv = "None" if (not tracked and R.random() < 0.7) else "(Some %s)" % nl(tracked)
    if inv != "None" and 0 not in exist:   # WF: the inventory object lives in namespace 0, which must exist then
        objs.append("mkC 0 %d%%N %s false [] false 1 None" % (uid, R.choice(["OOurs", "ONone"])))
        uid_of[0] = uid
        uid += 1
    c0 = "mkCl [%s] %s %d%%N" % ("; ".join(objs), inv, uid + 5)
    destroy = R.random() < 0.25
    locs = []
    lids = [i for i in range(NID) if R.random() < (0.2 if focus else 0.5)]
    if R.random() < 0.35:   # CRD and custom resource in one apply set (the mapper learns the kind at the end of the CRD's wait)
        k = R.choice([2, 3])
        lids = sorted(set(lids) | {k} | {i for i, c in CRD_OF.items() if c == k and R.random() < 0.8})
    for i in lids:
        deps = [d for d in range(NID) if d != i and R.random() < (0.2 if d in lids else 0.03)]
        if R.random() < 0.05 and deps: deps.append(deps[0])
        locs.append("mkLM %d %s %s %s %s %d %s" % (i, nl(deps), b(R.random() < 0.04), b(i == NID - 1 or R.random() < 0.04), b(R.random() < 0.1), R.randint(1, 2),
                                                   b(bool(deps) and R.random() < MUT_P)))
    dry = "DNone" if focus else R.choice(["DNone"] * 4 + ["DClient", "DServer"])
    ssa = R.random() < (0.5 if any(i in APISVC for i in lids) else 0.2)
    opts = "mkO %s %s %s %s %s %s %s %s %s %s %s" % (
        b(destroy), b(destroy or focus or R.random() < 0.8), R.choice(["PMustMatch", "PAdoptIfNoInventory", "PAdoptAll"]), dry,
        R.choice(["VExitEarly", "VSkipInvalid", "VSkipInvalid"]), b(ssa), b(R.random() < 0.5), b(R.random() < 0.5),
        b(R.random() < 0.3), R.choice(["PropBackground", "PropForeground", "PropOrphan"]), b(R.random() < 0.15))
    waits = []
    for k in range(8):
        ds = []
        for _ in range(R.randint(0, 5)):
            i = R.randrange(NID)
            st = R.choice(["SCurrent", "SCurrent", "SCurrent", "SNotFound", "SNotFound", "SInProgress", "SFailed", "STerminating", "SUnknown"])
            u = R.choice([0, uid_of.get(i, 10 + i), uid_of.get(i, 10 + i), 10 + i, 99, 30 + i])
            if fin[i] and FIN_CLAUSE in ("full", "nf") and st == "SNotFound":
                st = R.choice(["STerminating", "STerminating", "SCurrent", "SInProgress"])
            if fin[i] and FIN_CLAUSE == "full" and i in uid_of:
                u = R.choice([0, uid_of[i]])
            ds.append("mkS %d %s %s %d%%N %d%%Z" % (i, st, b(R.random() < 0.8), u, R.choice([1, 2, 2, 3])))
        mode = R.random()
        if mode < 0.5:  # everything reconciles (a finalizer-held object is never reported NotFound: it terminates for ever)
            ds += ["mkS %d SCurrent true 0%%N 2%%Z" % i for i in range(NID)] + \
                  [("mkS %d STerminating true 0%%N 2%%Z" if (fin[i] and FIN_CLAUSE != "none") else "mkS %d SNotFound false 0%%N 0%%Z") % i for i in range(NID)]
            R.shuffle(ds)
        waits.append("mkW [%s] %s" % ("; ".join(ds), R.choice(["WTimeout", "WTimeout", "WCancel"])))
    faults = []
    for _ in range(R.choice([0, 0, 0, 0, 0, 1]) if focus else R.choice([0, 0, 0, 1, 1, 2])):
        k = R.randrange(10)
        i = R.randrange(NID)
        faults.append(["FInvList %d" % R.randrange(6), "FInvGet %d" % R.randrange(2), "FInvWrite %d" % R.randrange(3), "FInvDelete", "FNsCreate",
                       "FGet %d %d" % (i, R.randrange(3)), "FApply %d" % i, "FUpdate %d" % i, "FDelete %d" % i,
                       "FStream %d %d" % (i, R.randrange(2))][k])
    for i in lids:
        # the apply PATCH of an APIService dies with a stream error; sometimes a request of the fallback is rejected too
        if i in APISVC and R.random() < APISVC_P:
            faults.append("FStream %d 0" % i)
            if R.random() < 0.4:
                faults.append(R.choice(["FGet %d %d" % (i, R.randrange(2)), "FApply %d" % i, "FStream %d 1" % i]))
    cancel = R.choice(["CNever"] * 6 + ["CBeforeSync", "(CDuringReq %d)" % R.randrange(NID)])
    werr = "None" if R.random() < 0.9 else "(Some %d)" % R.randrange(3)
    env = "mkE [%s] [%s] %s %s" % ("; ".join(faults), "; ".join(waits), cancel, werr)
    sc = "mkSc %s (Some 0) [%s] (%s) (%s)" % (univ, "; ".join(locs), opts, env)
    return "((%s), (%s))" % (c0, sc)
cases = [gen() for _ in range(n)]
src = """From Coq Require Import List NArith ZArith Bool. Import ListNotations.
From CliUtils Require Import Model.PipelineTypes Model.Pipeline Corr.CorrPipeline.
(* boolean WF (the clauses of Proofs/PipelineOrphansRun.v, written out here so that the fuzzer only needs Model + Corr) *)
Fixpoint nodupb' (l : list nat) : bool := match l with [] => true | x :: t => negb (memn x t) && nodupb' t end.
Definition fin_ok (sc : scenario) (c0 : cluster) (o : sobs) : bool :=
  negb (u_fin (uinfo_of sc (s_id o))) ||
  ((%s || negb (kst_eqb (s_st o) SNotFound)) &&
   (%s || negb (s_body o) || N.eqb (s_uid o) 0 ||
    match find_obj (objs c0) (s_id o) with Some c => N.eqb (s_uid o) (c_uid c) | None => true end)).
Definition wfb (sc : scenario) (c0 : cluster) : bool :=
  (o_destroy (sc_opts sc) || nodupb' (map l_id (sc_local sc)))
  && nodupb' (map c_id (objs c0))
  && forallb (fun c => N.ltb (c_uid c) (next_uid c0)) (objs c0)
  && forallb (fun c => forallb (fun c' => negb (N.eqb (c_uid c) (c_uid c')) || Nat.eqb (c_id c) (c_id c')) (objs c0)) (objs c0)
  && match sc_inv_ns sc, inv c0 with Some n, Some l => memn n (map c_id (objs c0)) || memn n l | _, _ => true end
  && (negb (o_destroy (sc_opts sc)) || o_prune (sc_opts sc))
  && forallb (fun w => forallb (fin_ok sc c0) (w_deliv w)) (e_waits (sc_env sc)).
(* a custom resource in the cluster has its CRD in the cluster *)
Definition crd_ok (sc : scenario) (c0 : cluster) : bool :=
  forallb (fun c => match u_crd (uinfo_of sc (c_id c)) with Some k => memn k (map c_id (objs c0)) | None => true end) (objs c0).
Definition kf_patternb (prev : list id) (t : list item) : bool :=
  existsb (fun it =>
    match it with
    | IReq (RNsCreate n) true _ _ =>
        negb (memn n prev)
        && existsb (fun x => match x with IEv (EStarted (GInvSet, 0)) => true | _ => false end) t
        && existsb (fun x => match x with
                             | IEv (EApply _ n' AFail) | IEv (EApply _ n' ASkip) => Nat.eqb n n'
                             | _ => false end) t
    | _ => false
    end) t.
Definition okb (sc : scenario) (c0 : cluster) (out : outcome) : bool :=
  %s && %s && negb (kf_patternb (prev_of c0) (out_trace out)).
Definition cases : list (cluster * scenario) := [
%s
].
Fixpoint idx {A} (n : nat) (l : list A) := match l with [] => [] | x :: t => (n, x) :: idx (S n) t end.
Definition res := Eval vm_compute in
  flat_map (fun p => let '(k, (c, sc)) := p in
     let out := run sc c in
     let ms := mon_all_ext sc c out in
     (* second run from the final state: histories *)
     let out2 := run sc (out_final out) in
     let ms2 := mon_all_ext sc (out_final out) out2 in
     (* a run outside WF / inside the known finding is reported as all-true *)
     let ms := if okb sc c out then ms else map (fun _ => true) ms in
     let ms2 := if okb sc c out && okb sc (out_final out) out2 then ms2 else map (fun _ => true) ms2 in
     (* the fixpoint part of C03 over the two-run history (reported as an 11th entry of the second list) *)
     let fx := negb (okb sc c out && okb sc (out_final out) out2) || c03_fixpoint c [(sc, out); (sc, out2)] in
     let ms2 := ms2 ++ [fx] in
     if forallb (fun x => x) (ms ++ ms2) then [] else [(k, ms, ms2)]) (idx 0 cases).
Print res.
Definition stats := Eval vm_compute in
  (length (filter (fun p => let '(c, sc) := p in okb sc c (run sc c)) cases),
   length (filter (fun p => let '(c, sc) := p in
                    existsb (fun it => match it with IReq (RDelete i _ _) true _ _ => u_fin (uinfo_of sc i) | _ => false end)
                            (out_trace (run sc c))) cases),
   length (filter (fun p => let '(c, sc) := p in let out := run sc c in
                    existsb (fun it => match it with IReq (RDelete i _ _) true _ _ => u_fin (uinfo_of sc i) | _ => false end) (out_trace out)
                    && existsb (fun it => match it with IEv (EStarted (GInvSet, 0)) => true | _ => false end) (out_trace out)) cases)).
Print stats.
Definition crd_absent (sc : scenario) (c : cluster) (i : id) : bool :=
  match u_crd (uinfo_of sc i) with Some k => negb (memn k (map c_id (objs c))) | None => false end.
Definition dstats := Eval vm_compute in
  (length (filter (fun p => let '(c, sc) := p in okb sc c (run sc c) &&
                    existsb (fun it => match it with IEv (EApply _ i AOk) => crd_absent sc c i | _ => false end) (out_trace (run sc c))) cases),
   length (filter (fun p => let '(c, sc) := p in okb sc c (run sc c) &&
                    existsb (fun it => match it with IEv (EApply _ i AFail) => crd_absent sc c i | _ => false end) (out_trace (run sc c))) cases),
   length (filter (fun p => let '(c, sc) := p in okb sc c (run sc c) &&
                    existsb (fun it => match it with IEv (EValidation l) => existsb (crd_absent sc c) l | _ => false end) (out_trace (run sc c))) cases),
   length (filter (fun p => let '(c, sc) := p in okb sc c (run sc c) && existsb (crd_absent sc c) (prev_of c)) cases)).
Print dstats.
(* apply-time mutation: runs (inside WF, outside the known finding) in which a mutation-spelled manifest with sources got the
   result Ok / Failed; in the Failed ones, those without any apply request for the object (filter, lookup or read failure) *)
Definition mut_res (sc : scenario) (out : outcome) (r : ast) (noreq : bool) : bool :=
  existsb (fun l => l_mut l && negb (match l_deps l with [] => true | _ => false end) &&
             existsb (fun it => match it with IEv (EApply _ j s) => Nat.eqb (l_id l) j && ast_eqb s r | _ => false end) (out_trace out) &&
             (negb noreq || negb (existsb (fun x => is_apply_req (fst x) (l_id l)) (reqs (out_trace out)))))
          (if o_destroy (sc_opts sc) then [] else sc_local sc).
Definition mstats := Eval vm_compute in
  (length (filter (fun p => let '(c, sc) := p in let out := run sc c in okb sc c out && mut_res sc out AOk false) cases),
   length (filter (fun p => let '(c, sc) := p in let out := run sc c in okb sc c out && mut_res sc out AFail true) cases),
   length (filter (fun p => let '(c, sc) := p in let out := run sc c in okb sc c out && is_dry (o_dry (sc_opts sc)) && mut_res sc out AFail true) cases)).
Print mstats.
(* the APIService fallback: an apply PATCH of an APIService died under the server-side option; the apply succeeded / failed *)
Definition fb_died (sc : scenario) (out : outcome) (i : id) : bool :=
  o_ssa (sc_opts sc) && is_apisvc sc i && faulted sc (FStream i 0)
  && existsb (fun it => match it with IReq (RPatch j true _) false _ _ => Nat.eqb i j | _ => false end) (out_trace out).
Definition astats := Eval vm_compute in
  (length (filter (fun p => let '(c, sc) := p in let out := run sc c in okb sc c out &&
                    existsb (fun i => fb_died sc out i) (seq 0 (length (sc_univ sc)))) cases),
   length (filter (fun p => let '(c, sc) := p in let out := run sc c in okb sc c out &&
                    existsb (fun i => fb_died sc out i &&
                       existsb (fun it => match it with IEv (EApply _ j AOk) => Nat.eqb i j | _ => false end) (out_trace out))
                            (seq 0 (length (sc_univ sc)))) cases),
   length (filter (fun p => let '(c, sc) := p in let out := run sc c in okb sc c out &&
                    existsb (fun i => fb_died sc out i &&
                       existsb (fun it => match it with IReq (RCreate j _) true _ _ => Nat.eqb i j | _ => false end) (out_trace out))
                            (seq 0 (length (sc_univ sc)))) cases)).
Print astats.
""" % (b(FIN_WF == "none"), b(FIN_WF != "full"),
       # full: the official boolean WF of Corr/CorrPipeline.v (wf_b_spec: wf_b sc c0 = true <-> WF sc c0)
       "wf_b sc c0" if FIN_WF == "full" else "wfb sc c0", "crd_ok sc c0" if DYN_WF == "crd" else "true", ";\n".join(cases))
d = "/tmp/modelfuzz_dyn_%d" % seed
os.makedirs(d, exist_ok=True)
open(d + "/f.v", "w").write(src)
p = subprocess.run(["coqc", "-Q", THEORIES, "CliUtils", "f.v"], cwd=d, capture_output=True, text=True)
out = p.stdout + p.stderr
NAMES = ["C01", "C02", "C03", "C04", "C05", "C10", "C11", "C12", "C13", "C04obs", "C06p", "C03fixpoint"]
if "Error" in out: print(out[-2000:])
flat = " ".join(out.split())
for m in re.finditer(r"\((\d+), \[([a-z; ]+)\], \[([a-z; ]+)\]\)", flat):
    f1 = [NAMES[i] for i, v in enumerate(m.group(2).split("; ")) if v == "false"]
    f2 = [NAMES[i] for i, v in enumerate(m.group(3).split("; ")) if v == "false"]
    print("case", m.group(1), "run1 fails", f1, "run2 fails", f2)
    if len(sys.argv) > 3 and sys.argv[3] == m.group(1):
        print(re.sub(r"mkW \[[^\]]*\] W\w+", "mkW..", cases[int(m.group(1))]))
m = re.search(r"stats = \((\d+), (\d+), (\d+)\)", flat)
if m: print("WF+kf_free first runs: %s/%d; runs with an accepted DELETE of a finalizer-held object: %s (of which reach inventory-set: %s)" % (m.group(1), n, m.group(2), m.group(3)))
m = re.search(r"dstats = \((\d+), (\d+), (\d+), (\d+)\)", flat)
if m: print("dynamic kinds (WF first runs): CR applied ok with its CRD absent before the run: %s; CR apply failed (CRD absent): %s; validation error naming such a CR: %s; tracked id of unknown kind: %s" % m.groups())
m = re.search(r"astats = \((\d+), (\d+), (\d+)\)", flat)
if m: print("APIService fallback (WF first runs): apply PATCH died under the server-side option: %s; of which the apply succeeded: %s; of which the fallback created the object: %s" % m.groups())
m = re.search(r"mstats = \((\d+), (\d+), (\d+)\)", flat)
if m: print("apply-time mutation (WF first runs): a mutation-spelled manifest with sources applied ok: %s; failed without any apply request: %s (of which under dry-run: %s)" % m.groups())
print("done", n)
