#!/bin/bash
# seed_regress.sh [ids...]: apply every seeded change (seeded/<id>/patch.diff) to ONE scratch worktree of /repo,
# run the check of its property against it in scratch-tree mode, and print one line per seed.
# The scratch worktree is removed at the end; /repo itself is never touched.
set -u
export GOFLAGS=-mod=mod GOPROXY=off GOSUMDB=off GOTOOLCHAIN=local
WT=${SEED_WT:-/var/tmp/seed_regress_wt}
git -C /repo worktree remove --force $WT 2>/dev/null
git -C /repo worktree add -q --detach $WT HEAD || exit 2
IDS=${@:-$(ls /verif/seeded)}
for id in $IDS; do
  P=${id:0:3}
  git -C $WT checkout -q -- . ; git -C $WT clean -fdq
  if ! git -C $WT apply /verif/seeded/$id/patch.diff 2>/dev/null; then echo "$id: patch does not apply"; continue; fi
  out=$(cd /verif && VERIF_REPO=$WT timeout 2400 bin/check $P 2>&1 | tail -3)
  if echo "$out" | grep -q "^VIOLATION property=$P"; then r=CAUGHT; else r=MISSED; fi
  echo "$id: $r  $(echo "$out" | tail -1)"
done
git -C /repo worktree remove --force $WT
