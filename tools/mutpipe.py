#!/usr/bin/env python3
"""mutpipe.py: systematic single-point mutation campaign against the PIPELINE checks (C01-C05, C10-C13, C06p).

  tools/mutpipe.py --wt /var/tmp/wt --verif /var/tmp/verif_copy --out notes/mutants/pipe-X.tsv \
      --tests "./pkg/apply/... ./pkg/inventory/..." [--profiles C01,C02,C05,C13] [--budget 260] [--max N] [--ops a,b] file.go ...

Per mutant (tools/gomutate): write it into the scratch worktree, `go build`, run the repository's own
tests (a mutant they kill is uninteresting), then build harness/pipeline/tools/corrall against the
worktree, run the given generator profiles with `budget` runs each, emitting cases for `check_all`
(Corr/CorrPipelineAll.v: model agreement + EVERY pipeline monitor + the C03 fixpoint clause), and
evaluate them with coqc. Verdict: caught (a monitor is false on a case that is not a known finding,
or the harness reports an implementation failure: hang, leak, panic, late request), caught~ (model
and implementation differ only), MISSED. One TSV line per mutant."""
import argparse, concurrent.futures, json, os, re, shutil, subprocess, sys, time

ENV = dict(os.environ, GOFLAGS="-mod=mod", GOPROXY="off", GOSUMDB="off", GOTOOLCHAIN="local", CGO_ENABLED="0")
MUT = os.path.join(os.path.dirname(os.path.abspath(__file__)), "gomutate", "gomutate")
BAD_RE = re.compile(r"Bad\s*=\s*(\[.*?\])\s*:\s*list", re.S)


def sh(cmd, cwd=None, env=None, timeout=1800):
    try:
        p = subprocess.run(cmd, cwd=cwd, env=env or ENV, stdout=subprocess.PIPE, stderr=subprocess.STDOUT,
                           timeout=timeout, text=True)
        return p.returncode, p.stdout
    except subprocess.TimeoutExpired as e:
        return 124, ""


def evalfile(theories, d, name):
    rc, out = sh(["coqc", "-Q", theories, "CliUtils", "-w", "-notation-overridden,-deprecated", name + ".v"], cwd=d, timeout=1800)
    m = BAD_RE.search(out)
    if rc != 0 or not m:
        return name, None, out[-400:]
    return name, [(int(i), int(k)) for i, k in re.findall(r"\(\s*(\d+)(?:%nat)?\s*,\s*(\d+)(?:%nat)?\s*\)", m.group(1))], ""


def run_checks(a, tag):
    """returns verdict string"""
    harness = os.path.join(a.verif, "harness")
    theories = os.path.join(a.verif, "coq", "theories")
    tmp = os.path.join("/var/tmp", "mutpipe_" + tag)
    os.makedirs(tmp, exist_ok=True)
    mod = os.path.join(tmp, "mut.mod")
    open(mod, "w").write(open(os.path.join(harness, "go.mod")).read().replace("=> /repo", "=> " + a.wt))
    shutil.copyfile(os.path.join(a.wt, "go.sum"), os.path.join(tmp, "mut.sum"))
    rc, o = sh(["go", "build", "-modfile", mod, "-o", os.path.join(tmp, "corrall"), "./pipeline/tools/corrall"], cwd=harness, timeout=1500)
    if rc != 0:
        return "caught:harness-does-not-build"
    out = os.path.join(tmp, "out")
    shutil.rmtree(out, ignore_errors=True)
    os.makedirs(out)
    profs = a.profiles.split(",")
    rc, o = sh([os.path.join(tmp, "corrall"), "-seed", "1", "-tier", "quick", "-budget", str(a.budget), "-out", out] + profs, timeout=2400)
    if rc != 0:
        return "caught:harness-run-failed(" + o.strip().splitlines()[-1][:120] + ")" if o.strip() else "caught:harness-run-failed"
    jobs, impl, texts = [], [], {}
    for p in profs:
        d = os.path.join(out, p)
        s = json.load(open(os.path.join(d, p + ".summary.json")))
        for f in s.get("impl_failures") or []:
            if "[KF-" not in f:
                impl.append(p + ": " + f[:160])
        for f in s["case_files"]:
            jobs.append((d, f))
            texts[(d, f)] = s["case_text"][f]
    mon, dif, err = [], 0, []
    with concurrent.futures.ThreadPoolExecutor(max_workers=12) as ex:
        for (d, f), (name, bad, e) in zip(jobs, ex.map(lambda j: evalfile(theories, j[0], j[1]), jobs)):
            if bad is None:
                err.append(f + ": " + e[-150:])
                continue
            for i, k in bad:
                t = texts[(d, f)][i]
                if "[KF-" in t:
                    continue
                if k >= 2:
                    mon.append(os.path.basename(d) + "/" + f + "[%d]" % i)
                else:
                    dif += 1
    if impl or mon:
        return "caught:monitor=%d impl=%d differ=%d %s" % (len(mon), len(impl), dif, (mon + impl)[0][:140])
    if err:
        return "caught~:coq-error " + err[0][:120]
    if dif:
        return "caught~:differ=%d" % dif
    return "MISSED"


def main():
    ap = argparse.ArgumentParser()
    ap.add_argument("--wt", required=True)
    ap.add_argument("--verif", default="/verif")
    ap.add_argument("--out", required=True)
    ap.add_argument("--tests", required=True)
    ap.add_argument("--profiles", default="C01,C02,C05,C13")
    ap.add_argument("--budget", type=int, default=260)
    ap.add_argument("--max", type=int, default=0)
    ap.add_argument("--start", type=int, default=0)
    ap.add_argument("--ops", default="")
    ap.add_argument("--test-timeout", type=int, default=900, help="go test -timeout in seconds (a mutant that makes the suite hang is killed by it)")
    ap.add_argument("--baseline", action="store_true", help="run the checks on the unmutated worktree and exit")
    ap.add_argument("files", nargs="*")
    a = ap.parse_args()
    tag = os.path.basename(a.wt.rstrip("/"))
    if a.baseline:
        print("baseline:", run_checks(a, tag))
        return
    ops = set(a.ops.split(",")) if a.ops else None
    os.makedirs(os.path.dirname(os.path.abspath(a.out)), exist_ok=True)
    done = set()
    if os.path.exists(a.out):
        for l in open(a.out):
            f = l.split("\t")
            if len(f) >= 2:
                done.add((f[0], f[1]))
    out = open(a.out, "a")
    n = 0
    for rel in a.files:
        path = os.path.join(a.wt, rel)
        orig = open(path).read()
        rc, lst = sh([MUT, "-list", path])
        for idx, line, op, desc in [l.split("\t") for l in lst.strip().splitlines() if l.strip()]:
            if int(idx) < a.start or (ops and op not in ops) or (rel, idx) in done:
                continue
            if a.max and n >= a.max:
                break
            n += 1
            t0 = time.time()
            rc, src = sh([MUT, "-apply", idx, path])
            verdict = "nomutant"
            try:
                if rc == 0:
                    open(path, "w").write(src)
                    rc, o = sh(["go", "build", "./pkg/...", "./cmd/..."], cwd=a.wt, timeout=900)
                    if rc != 0:
                        verdict = "nocompile"
                    else:
                        rc, o = sh(["go", "test", "-count=1", "-timeout", "%ds" % a.test_timeout] + a.tests.split(), cwd=a.wt, timeout=a.test_timeout + 300)
                        verdict = "killed-by-tests" if rc != 0 else run_checks(a, tag)
            finally:
                open(path, "w").write(orig)
            out.write("\t".join([rel, idx, line, op, desc, verdict, "%.0fs" % (time.time() - t0)]) + "\n")
            out.flush()
            print(rel, idx, line, op, desc, verdict, flush=True)


if __name__ == "__main__":
    main()
