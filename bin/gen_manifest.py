#!/usr/bin/env python3
"""Regenerates MANIFEST.json from checks.json (claimed properties) and
properties.jsonl (every other property goes to not_applicable with the reason
recorded in checks.json under "_not_claimed")."""
import json, os
ROOT = os.path.dirname(os.path.dirname(os.path.abspath(__file__)))
cfg = {}
for f in sorted(os.listdir(os.path.join(ROOT, "checks"))):
    if f.endswith(".json"):
        cfg[f[:-5]] = json.load(open(os.path.join(ROOT, "checks", f)))
props = [json.loads(l) for l in open(os.path.join(ROOT, "properties.jsonl"))]
not_claimed = cfg.get("_not_claimed", {})
checks, na = [], []
for p in props:
    pid = p["id"]
    c = cfg.get(pid)
    if c is None:
        na.append(dict(property_id=pid, reason=not_claimed.get(pid, "check not built yet in this round; see DESIGN.md section 6 for the planned model and theorems")))
        continue
    checks.append(dict(
        property_id=pid,
        quick_cmd="bin/check %s --tier quick" % pid,
        thorough_cmd="bin/check %s --tier thorough" % pid,
        evidence_file="/verif/evidence/%s.json" % pid,
        replay_cmd_template="bin/check %s --replay {path}" % pid,
        engine="coq-proof+correspondence",
        level_claimed=dict(category=c.get("level", "proof"), text=c["level_text"], design_ref=c.get("design_ref", "DESIGN.md section 6 (%s)" % pid)),
        level_note=c["level_note"],
        technique=c.get("technique", "Coq theorems over an executable Gallina model; model tied to /repo by a differential correspondence check evaluated with vm_compute"),
    ))
m = dict(
    version=1,
    setup_cmd="bin/setup",
    hooks=dict(guard="verif", enable="no hooks are compiled into /repo: the harness is an external Go module (replace sigs.k8s.io/cli-utils => /repo); unexported code is reached with `go test -overlay`",
               baseline_off_cmd="cd /repo && go test -mod=mod -vet=off -count=1 -timeout 25m ./...",
               source_commits=[], add_only=True),
    engines=[dict(name="coq-proof+correspondence", path="/verif/bin/check",
                  serves_properties=[c["property_id"] for c in checks],
                  kind_free_text="Coq 8.16.1 theorems (coq/theories) + Go differential harness (harness/) + python driver")],
    checks=checks,
    notes="See DESIGN.md. Genuine defects repaired in /repo are 'fix:' commits listed in known_findings.json.",
    not_applicable=na,
)
json.dump(m, open(os.path.join(ROOT, "MANIFEST.json"), "w"), indent=1)
print("claimed", len(checks), "not claimed", len(na))
