#!/usr/bin/env python3
"""Compares a `go test -json` log with the pinned baseline (1043 stable tests)."""
import json, sys
base = set(json.load(open('/root/.vp/BASELINE.json'))['stable_pass'])
res = {}
for l in open(sys.argv[1]):
    try:
        e = json.loads(l)
    except Exception:
        continue
    if e.get('Action') in ('pass', 'fail', 'skip') and e.get('Test'):
        res[e['Package'] + '::' + e['Test']] = e['Action']
passed = {k for k, v in res.items() if v == 'pass'}
print('passed', len(passed), 'baseline', len(base), 'baseline tests not passing', len(base - passed))
print(sorted(base - passed)[:20])
print('failed', sorted(k for k, v in res.items() if v == 'fail')[:20])
sys.exit(0 if not (base - passed) else 1)
